import AseProofs.Lemmas.RoundTrip
/-
  C01  The decoded sprite structure equals what the file encodes.

  Round-trip lemmas: every chunk decoder of the model, run on the bytes `Spec.enc… v` followed
  by arbitrary trailing bytes, returns the value `v` describes, for all values of every field.
-/
namespace Ase.Proofs.C01
open Ase Ase.Proofs

/-! ### layer chunk -/

theorem layer_roundtrip (l : Spec.LayerSpec) (pad : Bytes) (hname : l.name.length < 65536)
    (hutf : validUtf8 l.name = true) (hty : l.ltype.toNat ≤ 2) (hbl : l.blend.toNat ≤ 18) :
    runChunk parseLayerChunk (Spec.encLayer l ++ pad) = .ok
      { flags := l.flags.toNat % 128, name := l.name, blendMode := l.blend.toNat,
        opacity := l.opacity,
        layerType := (if l.ltype.toNat = 0 then .image else if l.ltype.toNat = 1 then .group
                      else .tilemap l.tileset),
        childLevel := l.level, userData := none } := by
  have h3 : l.ltype.toNat = 0 ∨ l.ltype.toNat = 1 ∨ l.ltype.toNat = 2 := by omega
  rcases h3 with h | h | h <;>
    simp [runChunk, parseLayerChunk, Spec.encLayer, List.append_assoc, hname, hutf, h,
      parseLayerType, parseBlendMode, hbl]

/-! ### user data chunk -/

/-- the text is reported iff bit 0 of the flags is set, the colour iff bit 1 is set -/
theorem userData_roundtrip (flags : UInt32) (text : Bytes) (color : RGBA) (pad : Bytes)
    (hlen : flags.toNat % 2 = 1 → text.length < 65536)
    (hutf : flags.toNat % 2 = 1 → validUtf8 text = true) :
    runChunk parseUserDataChunk (Spec.encUserData flags text color ++ pad) = .ok
      { text := if flags.toNat % 2 = 1 then some text else none,
        color := if flags.toNat / 2 % 2 = 1 then some color else none } := by
  by_cases h0 : flags.toNat % 2 = 1 <;> by_cases h1 : flags.toNat / 2 % 2 = 1 <;>
    simp [runChunk, parseUserDataChunk, Spec.encUserData, List.append_assoc, h0, h1, hlen, hutf]

/-! ### tags chunk -/

def tagOfSpec (t : Spec.TagSpec) : Tag :=
  { name := t.name, fromFrame := t.fromFrame, toFrame := t.toFrame, repeatCount := t.repeatCount,
    direction := t.direction.toNat, userData := none }

def TagOk (t : Spec.TagSpec) : Prop :=
  t.reserved.length = 6 ∧ t.direction.toNat ≤ 2 ∧ t.name.length < 65536 ∧ validUtf8 t.name = true

theorem tag_roundtrip (t : Spec.TagSpec) (r : Bytes) (h : TagOk t) :
    parseTag (Spec.encTag t ++ r) = .ok (tagOfSpec t, r) := by
  obtain ⟨hres, hdir, hlen, hutf⟩ := h
  simp [parseTag, Spec.encTag, List.append_assoc, hres, hdir, hlen, hutf, tagOfSpec]

theorem tags_roundtrip (reserved : Bytes) (ts : List Spec.TagSpec) (pad : Bytes)
    (hres : reserved.length = 8) (hlen : ts.length < 65536) (hts : ∀ t ∈ ts, TagOk t) :
    runChunk parseTagsChunk (Spec.encTags reserved ts ++ pad) = .ok (ts.map tagOfSpec) := by
  have hrep := rdRepeat_map parseTag Spec.encTag tagOfSpec ts
    (fun t ht r => tag_roundtrip t r (hts t ht)) pad
  simp [runChunk, parseTagsChunk, Spec.encTags, List.append_assoc, hres,
    u16_ofNat_toNat _ hlen, hrep]

/-! ### slice chunk -/

abbrev KeySpec := UInt32 × Int32 × Int32 × UInt32 × UInt32 × Slice9 × (Int32 × Int32)

/-- 9-slice data is reported iff bit 0 of the slice flags is set, the pivot iff bit 1 is set -/
def sliceKeyOfSpec (flags : UInt32) (k : KeySpec) : SliceKey :=
  { fromFrame := k.1, ox := k.2.1, oy := k.2.2.1, w := k.2.2.2.1, h := k.2.2.2.2.1,
    slice9 := if flags.toNat % 2 = 1 then some k.2.2.2.2.2.1 else none,
    pivot := if flags.toNat / 2 % 2 = 1 then some k.2.2.2.2.2.2 else none }

theorem sliceKey_roundtrip (flags : UInt32) (k : KeySpec) (r : Bytes) :
    parseSliceKey flags (Spec.encSliceKey flags k ++ r) = .ok (sliceKeyOfSpec flags k, r) := by
  obtain ⟨fr, ox, oy, w, h, ⟨cx, cy, cw, ch⟩, px, py⟩ := k
  by_cases h0 : flags.toNat % 2 = 1 <;> by_cases h1 : flags.toNat / 2 % 2 = 1 <;>
    simp [parseSliceKey, Spec.encSliceKey, List.append_assoc, h0, h1, sliceKeyOfSpec]

theorem slice_roundtrip (s : Spec.SliceSpec) (pad : Bytes) (hkeys : s.keys.length < 4294967296)
    (hlen : s.name.length < 65536) (hutf : validUtf8 s.name = true) :
    runChunk parseSliceChunk (Spec.encSlice s ++ pad) = .ok
      { name := s.name, keys := s.keys.map (sliceKeyOfSpec s.flags), userData := none } := by
  have hrep := rdRepeat_map (parseSliceKey s.flags) (Spec.encSliceKey s.flags)
    (sliceKeyOfSpec s.flags) s.keys (fun k _ r => sliceKey_roundtrip s.flags k r) pad
  simp [runChunk, parseSliceChunk, Spec.encSlice, List.append_assoc, hlen, hutf,
    u32_ofNat_toNat _ hkeys, RdS.bind_ok hrep]

/-! ### palette chunk (0x2019) -/

/-- the name is reported iff bit 0 of the entry flags is set -/
def palEntryOfSpec (id : Nat) (e : Spec.PalEntrySpec) : PalEntry :=
  { id := id, rgba := e.rgba, name := if e.flags.toNat % 2 = 1 then some e.name else none }

/-- entries `id, id+1, …` inserted in order into `p` -/
def palOfEntries : Nat → Palette → List Spec.PalEntrySpec → Palette
  | _, p, [] => p
  | id, p, e :: es => palOfEntries (id + 1) (p.insert (palEntryOfSpec id e)) es

def PalEntryOk (e : Spec.PalEntrySpec) : Prop :=
  e.flags.toNat % 2 = 1 → e.name.length < 65536 ∧ validUtf8 e.name = true

theorem palEntry_roundtrip (id : Nat) (e : Spec.PalEntrySpec) (r : Bytes) (h : PalEntryOk e) :
    parsePaletteEntry id (Spec.encPalEntry e ++ r) = .ok (palEntryOfSpec id e, r) := by
  by_cases h0 : e.flags.toNat % 2 = 1
  · obtain ⟨hlen, hutf⟩ := h h0
    simp [parsePaletteEntry, Spec.encPalEntry, List.append_assoc, h0, hlen, hutf, palEntryOfSpec]
  · simp [parsePaletteEntry, Spec.encPalEntry, List.append_assoc, h0, palEntryOfSpec]

theorem palEntries_roundtrip (es : List Spec.PalEntrySpec) :
    ∀ (id : Nat) (p : Palette) (r : Bytes), (∀ e ∈ es, PalEntryOk e) →
      parsePaletteEntries es.length id p ((es.map Spec.encPalEntry).flatten ++ r)
        = .ok (palOfEntries id p es, r) := by
  induction es with
  | nil => intro id p r _; rfl
  | cons e t ih =>
      intro id p r h
      have he := palEntry_roundtrip id e ((t.map Spec.encPalEntry).flatten ++ r)
        (h e List.mem_cons_self)
      have ht := ih (id + 1) (p.insert (palEntryOfSpec id e)) r
        (fun y hy => h y (List.mem_cons_of_mem _ hy))
      simp only [List.length_cons, List.map_cons, List.flatten_cons, List.append_assoc,
        parsePaletteEntries, palOfEntries]
      rw [RdS.bind_ok he, ht]

/-- The new palette chunk: `es` (non-empty) are the entries `first, first+1, …`; the result is
    the palette obtained by inserting them in this order. -/
theorem palette_roundtrip (total first : UInt32) (reserved : Bytes) (es : List Spec.PalEntrySpec)
    (pad : Bytes) (hres : reserved.length = 8) (hne : es ≠ [])
    (hlast : first.toNat + es.length - 1 < 4294967296) (hes : ∀ e ∈ es, PalEntryOk e) :
    runChunk parsePaletteChunk (Spec.encPalette total first reserved es ++ pad)
      = .ok (palOfEntries first.toNat Palette.empty es) := by
  have hpos : 0 < es.length := List.length_pos_iff.mpr hne
  have hcount : first.toNat + es.length - 1 - first.toNat + 1 = es.length := by omega
  have hnlt : ¬ first.toNat + es.length - 1 < first.toNat := by omega
  have hrep := palEntries_roundtrip es first.toNat Palette.empty pad hes
  simp [runChunk, parsePaletteChunk, Spec.encPalette, List.append_assoc, hres,
    u32_ofNat_toNat _ hlast, hnlt, hcount, hrep]

/-! ### external files chunk -/

def extFileOfSpec (f : UInt32 × Bytes × Bytes) : ExternalFile := { id := f.1, name := f.2.2 }

def ExtFileOk (f : UInt32 × Bytes × Bytes) : Prop :=
  f.2.1.length = 8 ∧ f.2.2.length < 65536 ∧ validUtf8 f.2.2 = true

theorem extFile_roundtrip (f : UInt32 × Bytes × Bytes) (r : Bytes) (h : ExtFileOk f) :
    parseExternalFile (Spec.encExtFile f ++ r) = .ok (extFileOfSpec f, r) := by
  obtain ⟨hres, hlen, hutf⟩ := h
  simp [parseExternalFile, Spec.encExtFile, List.append_assoc, hres, hlen, hutf, extFileOfSpec]

theorem extFiles_roundtrip (reserved : Bytes) (fs : List (UInt32 × Bytes × Bytes)) (pad : Bytes)
    (hres : reserved.length = 8) (hlen : fs.length < 4294967296) (hfs : ∀ f ∈ fs, ExtFileOk f) :
    runChunk parseExternalFilesChunk (Spec.encExtFiles reserved fs ++ pad)
      = .ok (fs.map extFileOfSpec) := by
  have hrep := rdRepeat_map parseExternalFile Spec.encExtFile extFileOfSpec fs
    (fun f hf r => extFile_roundtrip f r (hfs f hf)) pad
  simp [runChunk, parseExternalFilesChunk, Spec.encExtFiles, List.append_assoc, hres,
    u32_ofNat_toNat _ hlen, hrep]

/-! ### colour profile chunk -/

/-- profile types 0 (none) and 1 (sRGB) without the fixed-gamma flag are accepted -/
theorem colorProfile_roundtrip (ptype flags : UInt16) (gamma : UInt32) (reserved pad : Bytes)
    (hres : reserved.length = 8) (hty : ptype.toNat ≤ 1) (hfl : flags.toNat % 2 = 0) :
    runChunk parseColorProfileChunk (Spec.encColorProfile ptype flags gamma reserved ++ pad)
      = .ok () := by
  have h1 : ¬ ptype.toNat > 2 := by omega
  have h2 : ¬ ptype.toNat = 2 := by omega
  simp [runChunk, parseColorProfileChunk, Spec.encColorProfile, List.append_assoc, hres, h1, h2,
    hfl]

/-! ### cel chunk -/

/-- what `RawPixels::from_bytes` returns on a buffer of the right length -/
def rawPixelsOf (fmt : PixelFormat) (bytes : Bytes) : RawPixels :=
  match fmt with
  | .indexed _ => .indexed bytes.toArray
  | .grayscale => .gray (groupGray bytes).toArray
  | .rgba => .rgba (groupRgba bytes).toArray

theorem pixelsFromBytes_ok (fmt : PixelFormat) (px : Bytes) (n : Nat)
    (h : px.length = fmt.bpp * n) : pixelsFromBytes fmt px = .ok (rawPixelsOf fmt px) := by
  cases fmt with
  | rgba =>
      have : px.length % 4 = 0 := by simp only [PixelFormat.bpp] at h; omega
      simp [pixelsFromBytes, rawPixelsOf, this]
  | grayscale =>
      have : px.length % 2 = 0 := by simp only [PixelFormat.bpp] at h; omega
      simp [pixelsFromBytes, rawPixelsOf, this]
  | indexed t => rfl

theorem bpp_le (fmt : PixelFormat) : fmt.bpp ≤ 4 := by
  cases fmt <;> simp [PixelFormat.bpp]

/-- a cel's pixel count never overflows `usize` -/
theorem outputSize_cel (fmt : PixelFormat) (w h : UInt16) :
    outputSize fmt (w.toNat * h.toNat) = .ok (fmt.bpp * (w.toNat * h.toNat)) := by
  have hw := w.toNat_lt
  have hh := h.toNat_lt
  have h1 : w.toNat * h.toNat ≤ 65535 * 65535 := Nat.mul_le_mul (by omega) (by omega)
  have h2 : fmt.bpp * (w.toNat * h.toNat) ≤ 4 * (65535 * 65535) :=
    Nat.mul_le_mul (bpp_le fmt) h1
  have h3 : fmt.bpp * (w.toNat * h.toNat) < usizeLimit := by
    simp only [usizeLimit]; omega
  simp [outputSize, h3]

theorem takeBytes_app (n : Nat) (px r : Bytes) (h : px.length = n) :
    takeBytes n (px ++ r) = .ok (px, r) := by
  subst h
  simp [takeBytes]

theorem pixelsFromRaw_app (fmt : PixelFormat) (w h : UInt16) (px r : Bytes)
    (hpx : px.length = fmt.bpp * (w.toNat * h.toNat)) :
    pixelsFromRaw fmt (w.toNat * h.toNat) (px ++ r) = .ok (rawPixelsOf fmt px, r) := by
  simp only [pixelsFromRaw, outputSize_cel, rd_lift_ok_bind]
  rw [RdS.bind_ok (takeBytes_app _ px r hpx), pixelsFromBytes_ok fmt px _ hpx]
  rfl

theorem unzip_ok (inflate : Inflate) (n : Nat) (zs out : Bytes) (hz : inflate zs = .ok out)
    (hlen : out.length = n) : unzip inflate n zs = .ok (out, []) := by
  simp [unzip, hz, hlen]

theorem pixelsFromCompressed_ok (inflate : Inflate) (fmt : PixelFormat) (n : Nat) (zs px : Bytes)
    (hn : fmt.bpp * n < usizeLimit) (hz : inflate zs = .ok px) (hpx : px.length = fmt.bpp * n) :
    pixelsFromCompressed inflate fmt n zs = .ok (rawPixelsOf fmt px, []) := by
  have ho : outputSize fmt n = .ok (fmt.bpp * n) := by simp [outputSize, hn]
  simp only [pixelsFromCompressed, ho, rd_lift_ok_bind]
  rw [RdS.bind_ok (unzip_ok inflate _ zs px hz hpx), pixelsFromBytes_ok fmt px _ hpx]
  rfl

theorem pixelsFromCompressed_cel (inflate : Inflate) (fmt : PixelFormat) (w h : UInt16)
    (zs px : Bytes) (hz : inflate zs = .ok px)
    (hpx : px.length = fmt.bpp * (w.toNat * h.toNat)) :
    pixelsFromCompressed inflate fmt (w.toNat * h.toNat) zs = .ok (rawPixelsOf fmt px, []) := by
  have ho := outputSize_cel fmt w h
  have hn : fmt.bpp * (w.toNat * h.toNat) < usizeLimit := by
    unfold outputSize at ho
    by_cases hlt : fmt.bpp * (w.toNat * h.toNat) < usizeLimit
    · exact hlt
    · simp [hlt] at ho
  exact pixelsFromCompressed_ok inflate fmt _ zs px hn hz hpx

/-- the cel chunk header (everything in front of the type-specific body): the decoder reads
    layer, position, opacity and type, skips the 7 reserved bytes and continues on the body -/
theorem celHeader_roundtrip (inflate : Inflate) (fmt : PixelFormat) (c : Spec.CelSpec)
    (pad : Bytes) (hres : c.reserved.length = 7) :
    parseCelChunk inflate fmt (Spec.encCel c ++ pad) =
      ((parseCelContent inflate fmt (Spec.celType c.body) >>= fun content =>
        pure { data := ⟨c.layer, c.x, c.y, c.opacity⟩, content := content, userData := none })
        (Spec.encCelBody c.body ++ pad)) := by
  simp [parseCelChunk, Spec.encCel, List.append_assoc, hres]

/-- linked cel -/
theorem cel_linked_roundtrip (inflate : Inflate) (fmt : PixelFormat) (c : Spec.CelSpec)
    (f : UInt16) (pad : Bytes) (hres : c.reserved.length = 7) (hbody : c.body = .linked f) :
    runChunk (parseCelChunk inflate fmt) (Spec.encCel c ++ pad) = .ok
      { data := ⟨c.layer, c.x, c.y, c.opacity⟩, content := .linked f, userData := none } := by
  rw [runChunk, celHeader_roundtrip inflate fmt c pad hres, hbody]
  simp [Spec.celType, Spec.encCelBody, parseCelContent]

/-- raw image cel (type 0): `px` are exactly `w*h*bpp` bytes -/
theorem cel_raw_roundtrip (inflate : Inflate) (fmt : PixelFormat) (c : Spec.CelSpec)
    (w h : UInt16) (px pad : Bytes) (hres : c.reserved.length = 7)
    (hbody : c.body = .image w h px none)
    (hpx : px.length = fmt.bpp * (w.toNat * h.toNat)) :
    runChunk (parseCelChunk inflate fmt) (Spec.encCel c ++ pad) = .ok
      { data := ⟨c.layer, c.x, c.y, c.opacity⟩, content := .raw w h (rawPixelsOf fmt px),
        userData := none } := by
  rw [runChunk, celHeader_roundtrip inflate fmt c pad hres, hbody]
  simp [Spec.celType, Spec.encCelBody, parseCelContent, List.append_assoc,
    RdS.bind_ok (pixelsFromRaw_app fmt w h px pad hpx)]

/-- compressed image cel (type 2), for every inflater that maps the stored stream (followed by
    the chunk's trailing bytes) to the pixel bytes -/
theorem cel_compressed_roundtrip (inflate : Inflate) (fmt : PixelFormat) (c : Spec.CelSpec)
    (w h : UInt16) (px z pad : Bytes) (hres : c.reserved.length = 7)
    (hbody : c.body = .image w h px (some z))
    (hz : inflate (z ++ pad) = .ok px)
    (hpx : px.length = fmt.bpp * (w.toNat * h.toNat)) :
    runChunk (parseCelChunk inflate fmt) (Spec.encCel c ++ pad) = .ok
      { data := ⟨c.layer, c.x, c.y, c.opacity⟩, content := .raw w h (rawPixelsOf fmt px),
        userData := none } := by
  rw [runChunk, celHeader_roundtrip inflate fmt c pad hres, hbody]
  simp [Spec.celType, Spec.encCelBody, parseCelContent, List.append_assoc,
    RdS.bind_ok (pixelsFromCompressed_cel inflate fmt w h (z ++ pad) px hz hpx)]

/-- `groupTiles` on the little-endian encoding of a list of tile words -/
theorem groupTiles_enc (mask : UInt32) (tiles : List UInt32) :
    groupTiles mask ((tiles.map u32le).flatten) = tiles.map (· &&& mask) := by
  induction tiles with
  | nil => rfl
  | cons t ts ih =>
      simp only [List.map_cons, List.flatten_cons]
      rw [show u32le t = [UInt8.ofNat (t.toNat % 256), UInt8.ofNat (t.toNat / 256 % 256),
        UInt8.ofNat (t.toNat / 65536 % 256), UInt8.ofNat (t.toNat / 16777216)] from rfl]
      simp only [List.cons_append, List.nil_append, groupTiles, le32_split, ih]

/-- tilemap cel (type 3), for every inflater that maps the stored stream to `bytes`
    (`4*w*h` of them); the reported tile ids are the stored words masked by the tile-id mask -/
theorem cel_tilemap_roundtrip (inflate : Inflate) (fmt : PixelFormat) (c : Spec.CelSpec)
    (w h : UInt16) (mask : TileBitmask) (tiles : List UInt32) (z bytes pad : Bytes)
    (hres : c.reserved.length = 7) (hbody : c.body = .tilemap w h mask tiles z)
    (hz : inflate (z ++ pad) = .ok bytes)
    (hlen : bytes.length = 4 * (w.toNat * h.toNat)) :
    runChunk (parseCelChunk inflate fmt) (Spec.encCel c ++ pad) = .ok
      { data := ⟨c.layer, c.x, c.y, c.opacity⟩,
        content := .tilemap { width := w, height := h,
                              tiles := (groupTiles mask.tileId bytes).toArray, mask := mask },
        userData := none } := by
  rw [runChunk, celHeader_roundtrip inflate fmt c pad hres, hbody]
  simp [Spec.celType, Spec.encCelBody, Spec.encMask, parseCelContent, parseTilemap,
    List.append_assoc, RdS.bind_ok (unzip_ok inflate _ (z ++ pad) bytes hz hlen)]

/-- tilemap cel whose stream inflates to the encoding of `tiles` -/
theorem cel_tilemap_roundtrip' (inflate : Inflate) (fmt : PixelFormat) (c : Spec.CelSpec)
    (w h : UInt16) (mask : TileBitmask) (tiles : List UInt32) (z pad : Bytes)
    (hres : c.reserved.length = 7) (hbody : c.body = .tilemap w h mask tiles z)
    (hz : inflate (z ++ pad) = .ok ((tiles.map u32le).flatten))
    (hlen : tiles.length = w.toNat * h.toNat) :
    runChunk (parseCelChunk inflate fmt) (Spec.encCel c ++ pad) = .ok
      { data := ⟨c.layer, c.x, c.y, c.opacity⟩,
        content := .tilemap { width := w, height := h,
                              tiles := (tiles.map (· &&& mask.tileId)).toArray, mask := mask },
        userData := none } := by
  have hl : ((tiles.map u32le).flatten).length = 4 * (w.toNat * h.toNat) := by
    rw [← hlen]
    clear hz hlen hbody
    induction tiles with
    | nil => rfl
    | cons t ts ih => simp only [List.map_cons, List.flatten_cons, List.length_append,
        u32le_length, List.length_cons, ih]; omega
  rw [cel_tilemap_roundtrip inflate fmt c w h mask tiles z _ pad hres hbody hz hl, groupTiles_enc]

/-! ### legacy palette chunks (0x0004 / 0x0011) -/

/-- a colour component as the library reports it: 6-bit components of the 0x0011 chunk are
    scaled to 8 bits -/
def oldColor (scaled : Bool) (c : UInt8) : UInt8 :=
  if scaled then UInt8.ofNat ((c.toNat * 4) % 256 + c.toNat / 16) else c

/-- the colours of one packet become the entries `id, id+1, …` -/
def oldEntries (scaled : Bool) : Nat → Palette → List (UInt8 × UInt8 × UInt8) → Palette
  | _, p, [] => p
  | id, p, (r, g, b) :: cs =>
      oldEntries scaled (id + 1)
        (p.insert { id := id, rgba := ⟨oldColor scaled r, oldColor scaled g, oldColor scaled b, 255⟩,
                    name := none }) cs

/-- packet `k` starts at the sum of the skip bytes of the packets `0..k` (the offsets
    accumulate over the skip bytes only, as in the library) -/
def oldPackets (scaled : Bool) :
    Nat → Palette → List (UInt8 × List (UInt8 × UInt8 × UInt8)) → Palette
  | _, p, [] => p
  | skip, p, (sk, cs) :: ps =>
      oldPackets scaled (skip + sk.toNat) (oldEntries scaled (skip + sk.toNat) p cs) ps

def OldColorOk (scaled : Bool) (c : UInt8 × UInt8 × UInt8) : Prop :=
  scaled = true → c.1.toNat < 64 ∧ c.2.1.toNat < 64 ∧ c.2.2.toNat < 64

def OldPacketOk (scaled : Bool) (pk : UInt8 × List (UInt8 × UInt8 × UInt8)) : Prop :=
  1 ≤ pk.2.length ∧ pk.2.length ≤ 256 ∧ ∀ c ∈ pk.2, OldColorOk scaled c

theorem oldColor_roundtrip (scaled : Bool) (c : UInt8) (r : Bytes)
    (h : scaled = true → c.toNat < 64) :
    parseOldColor scaled (c :: r) = .ok (oldColor scaled c, r) := by
  cases scaled with
  | false => simp [parseOldColor, oldColor]
  | true =>
      have hc : ¬ c.toNat ≥ 64 := by have := h rfl; omega
      simp [parseOldColor, oldColor, scale6, hc]

theorem oldEntries_roundtrip (scaled : Bool) (cs : List (UInt8 × UInt8 × UInt8)) :
    ∀ (id : Nat) (p : Palette) (rest : Bytes), (∀ c ∈ cs, OldColorOk scaled c) →
      parseOldEntries scaled cs.length id p
          ((cs.map (fun (r, g, b) => [r, g, b])).flatten ++ rest)
        = .ok (oldEntries scaled id p cs, rest) := by
  induction cs with
  | nil => intro id p rest _; rfl
  | cons c t ih =>
      intro id p rest h
      obtain ⟨r, g, b⟩ := c
      have hc := h (r, g, b) List.mem_cons_self
      have ht := ih (id + 1)
        (p.insert { id := id, rgba := ⟨oldColor scaled r, oldColor scaled g, oldColor scaled b, 255⟩,
                    name := none }) rest (fun y hy => h y (List.mem_cons_of_mem _ hy))
      simp only [List.length_cons, List.map_cons, List.flatten_cons,
        List.cons_append, List.nil_append, parseOldEntries, oldEntries]
      rw [RdS.bind_ok (oldColor_roundtrip scaled r _ (fun hs => (hc hs).1)),
        RdS.bind_ok (oldColor_roundtrip scaled g _ (fun hs => (hc hs).2.1)),
        RdS.bind_ok (oldColor_roundtrip scaled b _ (fun hs => (hc hs).2.2)), ht]

theorem u32Add_ok (m : Profile) (a b : Nat) (h : a + b < 4294967296) :
    u32Add m a b = .ok (a + b) := by
  simp [u32Add, h]

theorem oldPackets_roundtrip (m : Profile) (scaled : Bool)
    (ps : List (UInt8 × List (UInt8 × UInt8 × UInt8))) :
    ∀ (skip : Nat) (p : Palette) (rest : Bytes), (∀ pk ∈ ps, OldPacketOk scaled pk) →
      skip + 255 * ps.length + 256 < 4294967296 →
      parseOldPackets m scaled ps.length skip p ((ps.map Spec.encOldPacket).flatten ++ rest)
        = .ok (oldPackets scaled skip p ps, rest) := by
  induction ps with
  | nil => intro skip p rest _ _; rfl
  | cons pk t ih =>
      intro skip p rest h hb
      obtain ⟨sk, cs⟩ := pk
      obtain ⟨h1, h256, hcs⟩ := h (sk, cs) List.mem_cons_self
      have h1 : 1 ≤ cs.length := h1
      have h256 : cs.length ≤ 256 := h256
      have hcs : ∀ c ∈ cs, OldColorOk scaled c := hcs
      simp only [List.length_cons] at hb
      have hsk := sk.toNat_lt
      have hcnt : (if (UInt8.ofNat (cs.length % 256)).toNat == 0 then 256
                    else (UInt8.ofNat (cs.length % 256)).toNat) = cs.length := by
        simp only [UInt8.toNat_ofNat', Nat.mod_mod, beq_iff_eq]
        split <;> omega
      have he := oldEntries_roundtrip scaled cs (skip + sk.toNat) p
        ((t.map Spec.encOldPacket).flatten ++ rest) hcs
      have ht := ih (skip + sk.toNat) (oldEntries scaled (skip + sk.toNat) p cs) rest
        (fun y hy => h y (List.mem_cons_of_mem _ hy)) (by omega)
      have henc : Spec.encOldPacket (sk, cs) = sk :: UInt8.ofNat (cs.length % 256) ::
          ((cs.map (fun (r, g, b) => [r, g, b])).flatten) := rfl
      rw [List.length_cons, List.map_cons, List.flatten_cons, List.append_assoc, henc]
      simp only [List.cons_append, parseOldPackets, oldPackets,
        readU8_bind, u32Add_ok m skip sk.toNat (by omega), rd_lift_ok_bind, hcnt,
        u32Add_ok m cs.length (skip + sk.toNat) (by omega)]
      rw [RdS.bind_ok he, ht]

/-- Legacy palette chunks: packets of 1..256 colours (count byte 0 = 256), fewer than 65536
    packets; components below 64 in the scaled (0x0011) kind.  The result is the palette built
    packet by packet at the cumulative skip offsets; no overflow check fires in either build
    profile. -/
theorem oldPalette_roundtrip (m : Profile) (scaled : Bool)
    (ps : List (UInt8 × List (UInt8 × UInt8 × UInt8))) (pad : Bytes)
    (hlen : ps.length < 65536) (hps : ∀ pk ∈ ps, OldPacketOk scaled pk) :
    runChunk (parseOldPaletteChunk m scaled) (Spec.encOldPalette ps ++ pad)
      = .ok (oldPackets scaled 0 Palette.empty ps) := by
  have hrep := oldPackets_roundtrip m scaled ps 0 Palette.empty pad hps (by omega)
  simp [runChunk, parseOldPaletteChunk, Spec.encOldPalette, List.append_assoc,
    u16_ofNat_toNat _ hlen, hrep]

/-! ### tileset chunk -/

theorem bpp_pos (fmt : PixelFormat) : 1 ≤ fmt.bpp := by
  cases fmt <;> simp [PixelFormat.bpp]

/-- the embedded-tiles part of a tileset chunk is well formed for the given inflater -/
def TilesetPixelsOk (inflate : Inflate) (fmt : PixelFormat) (t : Spec.TilesetSpec) (pad : Bytes) :
    Prop :=
  fmt.bpp * (t.count.toNat * t.th.toNat * t.tw.toNat) < usizeLimit ∧
  inflate (t.z ++ pad) = .ok t.pixels ∧
  t.pixels.length = fmt.bpp * (t.count.toNat * t.th.toNat * t.tw.toNat)

/-- Tileset chunk: the external link is reported iff flag bit 0 is set, the tile pixels iff
    bit 1 is set (for every inflater that maps the stored stream, followed by the chunk's trailing
    bytes, to the pixel bytes), "empty tile is 0" is bit 2. -/
theorem tileset_roundtrip (inflate : Inflate) (fmt : PixelFormat) (t : Spec.TilesetSpec)
    (pad : Bytes) (hres : t.reserved.length = 14) (hlen : t.name.length < 65536)
    (hutf : validUtf8 t.name = true) (htw : t.tw.toNat ≠ 0) (hth : t.th.toNat ≠ 0)
    (hpix : t.flags.toNat / 2 % 2 = 1 → TilesetPixelsOk inflate fmt t pad) :
    runChunk (parseTilesetChunk inflate fmt) (Spec.encTileset t ++ pad) = .ok
      { id := t.id, emptyTileIsZero := (t.flags.toNat / 4) % 2 == 1, tileCount := t.count,
        tileW := t.tw, tileH := t.th, baseIndex := t.base, name := t.name,
        extFile := if t.flags.toNat % 2 = 1 then some (t.extFile, t.extTileset) else none,
        pixels := if t.flags.toNat / 2 % 2 = 1 then some (rawPixelsOf fmt t.pixels) else none } := by
  by_cases h1 : t.flags.toNat / 2 % 2 = 1
  · obtain ⟨hn, hz, hpx⟩ := hpix h1
    have hb := bpp_pos fmt
    have hn' : ¬ t.count.toNat * t.th.toNat * t.tw.toNat ≥ usizeLimit := by
      have : t.count.toNat * t.th.toNat * t.tw.toNat
          ≤ fmt.bpp * (t.count.toNat * t.th.toNat * t.tw.toNat) := Nat.le_mul_of_pos_left _ hb
      omega
    have hc := pixelsFromCompressed_ok inflate fmt _ (t.z ++ pad) t.pixels hn hz hpx
    by_cases h0 : t.flags.toNat % 2 = 1 <;>
      simp [runChunk, parseTilesetChunk, Spec.encTileset, List.append_assoc, hres, hlen, hutf,
        htw, hth, h0, h1, hn', RdS.bind_ok hc]
  · by_cases h0 : t.flags.toNat % 2 = 1 <;>
      simp [runChunk, parseTilesetChunk, Spec.encTileset, List.append_assoc, hres, hlen, hutf,
        htw, hth, h0, h1]

/-! ### chunk framing -/

/-- declared size of an encoded chunk: 6 header bytes, payload, padding -/
def chunkSize (c : Spec.ChunkSpec) : Nat := 6 + (Spec.encItem c.item).2.length + c.pad.length

theorem encChunk_eq (c : Spec.ChunkSpec) :
    Spec.encChunk c = u32le (UInt32.ofNat (chunkSize c)) ++ u16le (Spec.encItem c.item).1 ++
      (Spec.encItem c.item).2 ++ c.pad := rfl

theorem encChunk_length (c : Spec.ChunkSpec) : (Spec.encChunk c).length = chunkSize c := by
  simp [encChunk_eq, chunkSize]
  omega

theorem readChunk_roundtrip (c : Spec.ChunkSpec) (ty : ChunkType) (avail : Int) (r : Bytes)
    (hsize : chunkSize c < 4294967296) (havail : (chunkSize c : Int) ≤ avail)
    (hty : parseChunkType (Spec.encItem c.item).1 = .ok ty) :
    readChunk bytesSrc avail (Spec.encChunk c ++ r) =
      .ok ((⟨ty, (Spec.encItem c.item).2 ++ c.pad⟩, avail - (chunkSize c : Int)), r) := by
  have h6 : ¬ chunkSize c < 6 := by unfold chunkSize; omega
  have hav : ¬ (chunkSize c : Int) > avail := by omega
  have hl : ((Spec.encItem c.item).2 ++ c.pad).length = chunkSize c - 6 := by
    simp [chunkSize]; omega
  rw [encChunk_eq]
  simp only [List.append_assoc, readChunk, readU32_bind, readU16_bind, hty, rd_lift_ok_bind,
    u32_ofNat_toNat _ hsize, h6, hav, if_false]
  rw [← List.append_assoc, RdS.bind_ok (readN_app _ _ r hl)]
  rfl

/-- the chunk type a well-formed item is read back as -/
def itemType : Spec.Item → ChunkType
  | .layer _ => .layer
  | .cel _ => .cel
  | .tags _ _ => .tags
  | .slice _ => .slice
  | .palette _ _ _ _ => .palette
  | .oldPalette scaled _ => if scaled then .oldPalette11 else .oldPalette04
  | .userData _ _ _ => .userData
  | .extFiles _ _ => .externalFiles
  | .tileset _ => .tileset
  | .colorProfile _ _ _ _ => .colorProfile
  | .ignorable code _ =>
      if code.toNat = 0x2006 then .celExtra else if code.toNat = 0x2016 then .mask else .path

/-- an ignorable item carries one of the three ignorable type codes -/
def ItemCodeOk : Spec.Item → Prop
  | .ignorable code _ => code.toNat = 0x2006 ∨ code.toNat = 0x2016 ∨ code.toNat = 0x2017
  | _ => True

theorem parseChunkType_item (it : Spec.Item) (h : ItemCodeOk it) :
    parseChunkType (Spec.encItem it).1 = .ok (itemType it) := by
  cases it with
  | oldPalette scaled ps => cases scaled <;> rfl
  | ignorable code payload =>
      simp only [ItemCodeOk] at h
      rcases h with h | h | h <;> simp [Spec.encItem, parseChunkType, itemType, h]
  | _ => rfl

/-- the chunk (type and buffer) a decoder is handed for an encoded chunk -/
def chunkOf (c : Spec.ChunkSpec) : Chunk := ⟨itemType c.item, (Spec.encItem c.item).2 ++ c.pad⟩

def ChunkOk (c : Spec.ChunkSpec) : Prop := chunkSize c < 4294967296 ∧ ItemCodeOk c.item

theorem readChunk_roundtrip' (c : Spec.ChunkSpec) (avail : Int) (r : Bytes) (h : ChunkOk c)
    (havail : (chunkSize c : Int) ≤ avail) :
    readChunk bytesSrc avail (Spec.encChunk c ++ r) =
      .ok ((chunkOf c, avail - (chunkSize c : Int)), r) :=
  readChunk_roundtrip c _ avail r h.1 havail (parseChunkType_item c.item h.2)

theorem encChunks_cons (c : Spec.ChunkSpec) (cs : List Spec.ChunkSpec) :
    Spec.encChunks (c :: cs) = Spec.encChunk c ++ Spec.encChunks cs := rfl

/-- `Chunk::read_all` over a sequence of encoded chunks, for every byte budget that covers
    them: the chunks come back in order, each with its payload and padding, and the reader
    stops exactly behind the last one. -/
theorem readChunks_roundtrip (cs : List Spec.ChunkSpec) :
    ∀ (avail : Int) (r : Bytes), (∀ c ∈ cs, ChunkOk c) →
      ((Spec.encChunks cs).length : Int) ≤ avail →
      readChunks bytesSrc cs.length avail (Spec.encChunks cs ++ r) = .ok (cs.map chunkOf, r) := by
  induction cs with
  | nil => intro avail r _ _; rfl
  | cons c t ih =>
      intro avail r h hav
      rw [encChunks_cons, List.length_append, encChunk_length] at hav
      have hc := readChunk_roundtrip' c avail (Spec.encChunks t ++ r) (h c List.mem_cons_self)
        (by omega)
      have ht := ih (avail - (chunkSize c : Int)) r (fun y hy => h y (List.mem_cons_of_mem _ hy))
        (by omega)
      rw [encChunks_cons, List.append_assoc, List.length_cons, readChunks, RdS.bind_ok hc]
      simp only []
      rw [RdS.bind_ok ht]
      rfl

/-! ### frame header -/

/-- the two chunk-count fields as `Spec.encFrame` writes them -/
def frameOldField (f : Spec.FrameSpec) : UInt16 :=
  if f.oldCountOnly || f.chunks.length == 0 then UInt16.ofNat f.chunks.length else f.oldField

def frameNewField (f : Spec.FrameSpec) : UInt32 :=
  if f.oldCountOnly then 0 else UInt32.ofNat f.chunks.length

def frameBytes (f : Spec.FrameSpec) : Nat := 16 + (Spec.encChunks f.chunks).length + f.slack.toNat

theorem encFrame_eq (f : Spec.FrameSpec) :
    Spec.encFrame f = u32le (UInt32.ofNat (frameBytes f)) ++ u16le 0xF1FA ++
      u16le (frameOldField f) ++ u16le f.duration ++ u16le f.ph ++ u32le (frameNewField f) ++
      Spec.encChunks f.chunks := by
  unfold Spec.encFrame frameOldField frameNewField frameBytes
  cases f.oldCountOnly <;> by_cases h : f.chunks.length = 0 <;> simp [h]

/-- `readFrameHeader` consumes exactly the 16 header bytes of an encoded frame -/
theorem readFrameHeader_roundtrip (f : Spec.FrameSpec) (r : Bytes) :
    readFrameHeader bytesSrc (Spec.encFrame f ++ r) =
      .ok (⟨UInt32.ofNat (frameBytes f), frameOldField f, f.duration, frameNewField f⟩,
           Spec.encChunks f.chunks ++ r) := by
  rw [encFrame_eq]
  simp [readFrameHeader, List.append_assoc]

/-- both chunk-count conventions give the number of chunks: the old (u16) field alone when
    `oldCountOnly` (fewer than 65536 chunks), otherwise the new (u32) field, with the old field
    arbitrary unless there are no chunks -/
theorem frame_numChunks (f : Spec.FrameSpec)
    (hold : f.oldCountOnly = true → f.chunks.length < 65536)
    (hnew : f.oldCountOnly = false → f.chunks.length < 4294967296) :
    (FrameHeader.mk (UInt32.ofNat (frameBytes f)) (frameOldField f) f.duration
      (frameNewField f)).numChunks = f.chunks.length := by
  cases ho : f.oldCountOnly with
  | true =>
      have := hold ho
      simp [FrameHeader.numChunks, frameOldField, frameNewField, ho, u16_ofNat_toNat _ this]
  | false =>
      have hn := hnew ho
      by_cases h0 : f.chunks.length = 0
      · simp [FrameHeader.numChunks, frameOldField, frameNewField, ho, h0]
      · simp [FrameHeader.numChunks, frameNewField, ho, h0, u32_ofNat_toNat _ hn]

/-- frame header followed by `read_all`: the chunks of an encoded frame come back in order -/
theorem frame_roundtrip (f : Spec.FrameSpec) (r : Bytes)
    (hold : f.oldCountOnly = true → f.chunks.length < 65536)
    (hnew : f.oldCountOnly = false → f.chunks.length < 4294967296)
    (hbytes : frameBytes f < 4294967296) (hcs : ∀ c ∈ f.chunks, ChunkOk c) :
    (readFrameHeader bytesSrc >>= fun h =>
        readChunks bytesSrc h.numChunks ((h.numBytes.toNat : Int) - 16)) (Spec.encFrame f ++ r)
      = .ok (f.chunks.map chunkOf, r) := by
  rw [RdS.bind_ok (readFrameHeader_roundtrip f r)]
  simp only [frame_numChunks f hold hnew, u32_ofNat_toNat _ hbytes]
  apply readChunks_roundtrip f.chunks _ r hcs
  unfold frameBytes
  omega

/-! ### file header -/

theorem readHeader_roundtrip (h : Spec.HeaderSpec) (n : Nat) (r : Bytes)
    (hres : h.reserved.length = 84) :
    readHeader bytesSrc (Spec.encHeader h n ++ r) =
      .ok (⟨UInt16.ofNat n, h.width, h.height, h.depth, h.speed, h.tci, h.pixelW, h.pixelH⟩, r) := by
  have hm : ((0xA5E0 : UInt16).toNat != 0xA5E0) = false := by decide
  unfold readHeader Spec.encHeader
  simp only [List.append_assoc]
  rw [readU32_bind, readU16_bind]
  simp only [hm]
  simp [hres]

/-! ### non-vacuity: the hypotheses are met by extreme field values -/

/-- all flag bits, tilemap type, last blend mode, a name with a two-byte UTF-8 sequence, padding -/
example : runChunk parseLayerChunk
    (Spec.encLayer ⟨0xFFFF, 2, 0xFFFF, 7, 9, 18, 255, 1, 2, [104, 0xC3, 0xA9], 0xFFFFFFFF⟩ ++ [1, 2, 3])
    = .ok { flags := 127, name := [104, 0xC3, 0xA9], blendMode := 18, opacity := 255,
            layerType := .tilemap 0xFFFFFFFF, childLevel := 0xFFFF, userData := none } :=
  layer_roundtrip _ _ (by decide) (by decide) (by decide) (by decide)

/-- signed extremes of the cel position, empty trailing bytes -/
example (inflate : Inflate) (fmt : PixelFormat) :
    runChunk (parseCelChunk inflate fmt)
      (Spec.encCel ⟨0xFFFF, Int16.minValue, Int16.maxValue, 0, [1, 2, 3, 4, 5, 6, 7], .linked 0xFFFF⟩ ++ [])
    = .ok { data := ⟨0xFFFF, Int16.minValue, Int16.maxValue, 0⟩, content := .linked 0xFFFF,
            userData := none } :=
  cel_linked_roundtrip inflate fmt _ _ _ rfl rfl

/-- a 2×1 RGBA raw cel -/
example (inflate : Inflate) :
    runChunk (parseCelChunk inflate .rgba)
      (Spec.encCel ⟨0, -1, 1, 128, [0, 0, 0, 0, 0, 0, 0], .image 2 1 [1, 2, 3, 4, 5, 6, 7, 8] none⟩ ++ [9])
    = .ok { data := ⟨0, -1, 1, 128⟩,
            content := .raw 2 1 (.rgba #[⟨1, 2, 3, 4⟩, ⟨5, 6, 7, 8⟩]), userData := none } :=
  cel_raw_roundtrip inflate .rgba _ 2 1 [1, 2, 3, 4, 5, 6, 7, 8] [9] rfl rfl rfl

/-- a slice key with the signed extremes, both optional parts present -/
example : parseSliceKey 3
    (Spec.encSliceKey 3 (0xFFFFFFFF, Int32.minValue, Int32.maxValue, 0, 0xFFFFFFFF,
      ⟨Int32.minValue, -1, 0, 1⟩, (Int32.maxValue, Int32.minValue)) ++ [])
    = .ok ({ fromFrame := 0xFFFFFFFF, ox := Int32.minValue, oy := Int32.maxValue, w := 0,
             h := 0xFFFFFFFF, slice9 := some ⟨Int32.minValue, -1, 0, 1⟩,
             pivot := some (Int32.maxValue, Int32.minValue) }, []) :=
  sliceKey_roundtrip 3 _ []

end Ase.Proofs.C01
