import AseProofs.Lemmas.InflateT
import Ase.Alloc
/-
  Property C12, the inflater side: the total inflater `Ase.ZlibT.inflate` satisfies the
  expansion hypothesis `Alloc.ExpansionBounded` that the allocation theorems assume, its fuel
  is never exhausted, and it inverts the stored-block encoder `Ase.Zlib.deflateStored`.
-/
namespace Ase.Proofs.C12
open Ase

/-- deflate cannot expand by more than 1032:1 (129 output bytes per consumed input bit):
    a literal costs at least one bit for one byte, a match at least two bits for at most 258
    bytes, a stored block copies input bytes.  In fact `out.length + 2064 ≤ 1032 * z.length`. -/
theorem inflateT_expansionBounded : Alloc.ExpansionBounded ZlibT.inflate := by
  intro z out h
  unfold ZlibT.inflate at h
  split at h
  · rename_i o ho
    injection h with h1
    subst h1
    have := ZlibT.inflateZlib_size ho
    simp only [ByteArray.size, List.size_toArray, Array.length_toList] at this ⊢
    omega
  · cases h
  · cases h

/-- the sharper form that falls out of the invariant -/
theorem inflateT_expansion_sharp (z out : Bytes) (h : ZlibT.inflate z = .ok out) :
    out.length + 2064 ≤ 1032 * z.length := by
  unfold ZlibT.inflate at h
  split at h
  · rename_i o ho
    injection h with h1
    subst h1
    have := ZlibT.inflateZlib_size ho
    simp only [ByteArray.size, List.size_toArray, Array.length_toList] at this ⊢
    omega
  · cases h
  · cases h

/-- the fuel arguments of the three input-bounded loops always suffice: the internal
    out-of-fuel error is never returned -/
theorem inflateT_fuel_suffices (input : ByteArray) :
    ZlibT.inflateZlib input ≠ .error .fuel :=
  ZlibT.inflateZlib_nofuel input

/-- round trip of the stored-block encoder through the total inflater, for every byte list
    (empty, and longer than one 65535-byte block included); the Adler-32 trailer is checked -/
theorem inflateT_deflateStored (bs : Bytes) : ZlibT.inflate (Zlib.deflateStored bs) = .ok bs :=
  ZlibT.inflate_deflateStored bs

/-! ### non-vacuity: concrete streams, evaluated by the kernel -/

-- fixed-Huffman block with an overlapping match (zlib level 9 of "hello hello hello")
example : ZlibT.inflate [0x78,0xda,0xcb,0x48,0xcd,0xc9,0xc9,0x57,0xc8,0x40,0x90,0x00,0x3a,0x2e,0x06,0x7d]
    = .ok [0x68,0x65,0x6c,0x6c,0x6f,0x20,0x68,0x65,0x6c,0x6c,0x6f,0x20,0x68,0x65,0x6c,0x6c,0x6f] := by
  decide +kernel

-- the same stream, last byte missing / last byte wrong: the two error classes
example : ZlibT.inflate [0x78,0xda,0xcb,0x48,0xcd,0xc9,0xc9,0x57,0xc8,0x40,0x90,0x00,0x3a,0x2e,0x06]
    = .err (.io .unexpectedEof) := by decide +kernel
example : ZlibT.inflate [0x78,0xda,0xcb,0x48,0xcd,0xc9,0xc9,0x57,0xc8,0x40,0x90,0x00,0x3a,0x2e,0x06,0x7c]
    = .err (.io (.other 1)) := by decide +kernel

-- empty payload (zlib level 6 of "")
example : ZlibT.inflate [0x78,0x9c,0x03,0x00,0x00,0x00,0x00,0x01] = .ok [] := by decide +kernel

-- stored block (zlib level 0 of "stored!")
example : ZlibT.inflate [0x78,0x01,0x01,0x07,0x00,0xf8,0xff,0x73,0x74,0x6f,0x72,0x65,0x64,0x21,0x0b,0xef,0x02,0xb3]
    = .ok [0x73,0x74,0x6f,0x72,0x65,0x64,0x21] := by decide +kernel

-- dynamic-Huffman block (zlib level 9 of 42 bytes over the alphabet "abc")
example : ZlibT.inflate [0x78,0xda,0x25,0x88,0x81,0x09,0x00,0x00,0x08,0x83,0x6e,0xd5,0xfe,0xff,0x21,0x23,0x10,0x71,0x93,0xc1,0x10,0x2a,0xae,0x53,0xf3,0x1f,0xc3,0xdc,0xbf,0x58,0xcd,0x10,0x0a]
    = .ok [0x62,0x61,0x63,0x61,0x62,0x63,0x61,0x62,0x62,0x61,0x61,0x61,0x63,0x61,0x61,0x61,0x62,0x63,0x61,0x61,0x61,0x62,0x62,0x62,0x61,0x62,0x62,0x61,0x61,0x61,0x63,0x62,0x61,0x63,0x62,0x62,0x63,0x62,0x61,0x61,0x62,0x63] := by
  decide +kernel

-- a match reaching before the start of the output reads zeros (literal 'a', then length 10
-- at distance 5): accepted, like the streaming decoder with its zero-initialised window
example : ZlibT.inflate [0x78,0x9c,0x4b,0x44,0x10,0x00,0x06,0xdd,0x01,0x24]
    = .ok [0x61,0x00,0x00,0x00,0x00,0x61,0x00,0x00,0x00,0x00,0x61] := by decide +kernel

-- the stored-block encoder on a concrete input (an instance of `inflateT_deflateStored`)
example : Zlib.deflateStored [1, 2, 3] = [0x78,0x01,0x01,0x03,0x00,0xfc,0xff,1,2,3,0x00,0x0d,0x00,0x07] := by
  decide +kernel

end Ase.Proofs.C12
