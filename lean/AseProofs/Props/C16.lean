import AseProofs.Props.C04
import AseProofs.Props.C03
import AseProofs.Lemmas.Assoc
/-
  C16  A loaded sprite is an immutable, thread-safe value; results are deterministic.

  In the model every accessor is a pure function of the `Sprite` value, so repetition, call order
  and sharing cannot matter by construction; what ties that to the Rust (no interior
  mutability, no caches, `Send + Sync`) is the correspondence check (repeated, permuted and
  concurrent observation from 16 threads, a compile-time `Send + Sync` assertion in the harness).
  Proved here: no result depends on the build profile (i.e. on wrapping arithmetic or on
  debug assertions), and the observations of the hash-map backed collections do not depend on
  insertion order.
-/
namespace Ase.Proofs.C16
open Ase Ase.Proofs Ase.Proofs.C04

theorem u32Add_profile (m m' : Profile) (a b : Nat) (h : a + b < 4294967296) :
    u32Add m a b = u32Add m' a b := by
  simp [u32Add, h]

/-- the legacy palette decoder does not depend on the build profile: its u32 accumulations
    never overflow -/
theorem parseOldPackets_profile (m m' : Profile) (scaled : Bool) :
    ∀ (n skip : Nat) (p : Palette), skip + 255 * n ≤ 255 * 65535 →
      parseOldPackets m scaled n skip p = parseOldPackets m' scaled n skip p := by
  intro n
  induction n with
  | zero => intro skip p _; rfl
  | succ n ih =>
      intro skip p h
      funext bs
      simp only [parseOldPackets, RdS.bind_run]
      cases h1 : readU8 bytesSrc bs with
      | err e => rfl
      | panic s => rfl
      | ok r1 =>
        obtain ⟨sk, s1⟩ := r1
        have hsk : sk.toNat < 256 := sk.toNat_lt
        have hadd : skip + sk.toNat < 4294967296 := by omega
        simp only [RdS.lift, u32Add, hadd, if_true, Res.map_ok]
        cases h2 : readU8 bytesSrc s1 with
        | err e => rfl
        | panic s => rfl
        | ok r2 =>
          obtain ⟨c, s2⟩ := r2
          have hc : (if c.toNat == 0 then 256 else c.toNat) ≤ 256 := by
            have hlt := c.toNat_lt
            split
            · exact Nat.le_refl _
            · exact Nat.le_of_lt hlt
          have hadd2 : (if c.toNat == 0 then 256 else c.toNat) + (skip + sk.toNat) < 4294967296 := by omega
          simp only [hadd2, if_true, Res.map_ok]
          cases h3 : parseOldEntries scaled (if c.toNat == 0 then 256 else c.toNat) (skip + sk.toNat) p s2 with
          | err e => rfl
          | panic s => rfl
          | ok r3 =>
            obtain ⟨p', s3⟩ := r3
            simp only
            rw [ih (skip + sk.toNat) p' (by omega)]

theorem parseOldPaletteChunk_profile (m m' : Profile) (scaled : Bool) :
    parseOldPaletteChunk m scaled = parseOldPaletteChunk m' scaled := by
  funext bs
  simp only [parseOldPaletteChunk, RdS.bind_run]
  cases h : readU16 bytesSrc bs with
  | err e => rfl
  | panic s => rfl
  | ok r =>
    obtain ⟨n, s1⟩ := r
    have := n.toNat_lt
    simp only
    rw [parseOldPackets_profile m m' scaled n.toNat 0 Palette.empty (by omega)]

theorem processChunk_profile (inflate : Inflate) (m m' : Profile) (fmt : PixelFormat) (frame : Nat)
    (pi : ParseInfo) (c : Chunk) :
    processChunk inflate m fmt frame pi c = processChunk inflate m' fmt frame pi c := by
  unfold processChunk
  split <;> first | rfl | (simp only [parseOldPaletteChunk_profile m m'])

theorem processChunks_profile (inflate : Inflate) (m m' : Profile) (fmt : PixelFormat) (frame : Nat) :
    ∀ (cs : List Chunk) (pi : ParseInfo),
      processChunks inflate m fmt frame pi cs = processChunks inflate m' fmt frame pi cs := by
  intro cs
  induction cs with
  | nil => intro pi; rfl
  | cons c cs ih =>
      intro pi
      simp only [processChunks, processChunk_profile inflate m m']
      split <;> first | rfl | exact ih _

theorem parseFrame_profile {σ} (S : Src σ) (inflate : Inflate) (m m' : Profile) (fmt : PixelFormat)
    (frame : Nat) (pi : ParseInfo) :
    parseFrame S inflate m fmt frame pi = parseFrame S inflate m' fmt frame pi := by
  unfold parseFrame
  simp only [processChunks_profile inflate m m']

theorem parseFrames_profile {σ} (S : Src σ) (inflate : Inflate) (m m' : Profile) (fmt : PixelFormat) :
    ∀ (n frame : Nat) (pi : ParseInfo),
      parseFrames S inflate m fmt n frame pi = parseFrames S inflate m' fmt n frame pi := by
  intro n
  induction n with
  | zero => intro _ _; rfl
  | succ n ih =>
      intro frame pi
      simp only [parseFrames, parseFrame_profile S inflate m m']
      congr 1
      funext pi'
      exact ih _ _

/-- **no result of loading depends on the build profile**: optimised and unoptimised builds,
    with and without overflow checks, load every byte string to the same sprite or the same
    error (together with `C04.parse_total`: neither build panics) -/
theorem parse_profile_irrelevant (inflate : Inflate) (m m' : Profile) (bs : Bytes) :
    parse inflate m bs = parse inflate m' bs := by
  unfold parse parseFile
  simp only [parseFrames_profile bytesSrc inflate m m']

/-- the 14 integer blend modes compute the same pixel in both profiles -/
theorem blend_profile_irrelevant_int {F : Type} (ops : FOps F) (m m' : Profile) (mode : Nat)
    (hm : C17.intMode mode = true) (b s : RGBA) (o : UInt8) :
    Blend.blend ops m mode b s o = Blend.blend ops m' mode b s o := by
  rw [C03.blend_eq_ref_int ops m mode hm, C03.blend_eq_ref_int ops m' mode hm]

/-- `Tileset::image`: the u32 product is the only profile-dependent operation -/
theorem tilesetImage_profile_irrelevant (m m' : Profile) (pal : Option Palette) (ts : Tileset Pixels)
    (hfit : ts.tileH.toNat * ts.tileCount.toNat < 4294967296) :
    ts.image m pal = ts.image m' pal := by
  simp [Tileset.image, u32Mul, hfit]

/-- **map-backed collections**: what a lookup reports depends only on the inserted content,
    not on the order in which distinct keys were inserted -/
theorem map_order_irrelevant {α} (k k1 k2 : Nat) (v1 v2 : α) (l : List (Nat × α)) (hne : k1 ≠ k2) :
    assocGet? k (assocInsert k1 v1 (assocInsert k2 v2 l)) =
      assocGet? k (assocInsert k2 v2 (assocInsert k1 v1 l)) := by
  simp only [assocGet?_insert]
  by_cases h1 : k1 = k <;> by_cases h2 : k2 = k <;> simp_all

/-- and a later insertion of the same key wins, whatever came before -/
theorem map_last_insert_wins {α} (k : Nat) (v : α) (l : List (Nat × α)) :
    assocGet? k (assocInsert k v l) = some v := by
  simp [assocGet?_insert]

end Ase.Proofs.C16
