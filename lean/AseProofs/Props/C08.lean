import AseProofs.Lemmas.RenderBasic
/-
  C08  Tilemap and tileset images agree with tile lookups.
-/
namespace Ase.Proofs.C08
open Ase Ase.Proofs

/-- **size**: the tilemap's size in tiles is the canvas size divided by the tile size, rounded
    up; its tileset is the layer's tileset -/
theorem tilemap_size (s : Sprite) (l f : Nat) (v : TilemapView) (h : s.tilemap l f = .ok (some v)) :
    v.logicalW = (s.width.toNat + v.tileset.tileW.toNat - 1) / v.tileset.tileW.toNat ∧
    v.logicalH = (s.height.toNat + v.tileset.tileH.toNat - 1) / v.tileset.tileH.toNat ∧
    v.tileset.tileW.toNat ≠ 0 ∧ v.tileset.tileH.toNat ≠ 0 := by
  unfold Sprite.tilemap at h
  split at h
  · cases h
  · split at h
    · cases h
    · split at h
      · split at h
        · cases h
        · split at h
          · split at h
            · dsimp only at h
              split at h
              · cases h
              · rename_i hz
                split at h
                · cases h
                  simp only [Bool.or_eq_true, beq_iff_eq, not_or] at hz
                  exact ⟨rfl, rfl, hz.1, hz.2⟩
                · cases h
            · cases h
          · cases h
          · cases h
          · cases h
      · cases h

/-- rounded-up division really is the ceiling: `w` tiles cover the canvas, `w - 1` do not -/
theorem ceil_div_spec (W t : Nat) (ht : 0 < t) :
    W ≤ ((W + t - 1) / t) * t ∧ (0 < W → ((W + t - 1) / t - 1) * t < W) := by
  have h1 := Nat.div_add_mod (W + t - 1) t
  have h2 := Nat.mod_lt (W + t - 1) ht
  constructor
  · rw [Nat.mul_comm]; omega
  · intro hW
    have hq : 1 ≤ (W + t - 1) / t := by
      apply (Nat.le_div_iff_mul_le ht).mpr; omega
    rw [Nat.sub_mul, Nat.mul_comm ((W + t - 1) / t)]
    omega

/-- **offsets**: the tile offsets are the cel offset divided by the tile size (truncating) -/
theorem tile_offsets (v : TilemapView) (hw : v.tileset.tileW.toNat ≠ 0) (hh : v.tileset.tileH.toNat ≠ 0) :
    v.tileOffsets = .ok (Int.tdiv v.cel.data.x.toInt v.tileset.tileW.toNat,
                         Int.tdiv v.cel.data.y.toInt v.tileset.tileH.toNat) := by
  simp [TilemapView.tileOffsets, hw, hh]

/-- **lookups outside the stored tile area return the empty tile 0**, for every pair of `u32`
    coordinates (indeed for all naturals) — no overflow, no panic -/
theorem tile_outside_empty (v : TilemapView) (x y : Nat) (ox oy : Int)
    (hofs : v.tileOffsets = .ok (ox, oy))
    (hout : (x : Int) - ox < 0 ∨ (y : Int) - oy < 0 ∨ (x : Int) - ox ≥ v.data.width.toNat ∨
            (y : Int) - oy ≥ v.data.height.toNat) :
    v.tile x y = .ok 0 := by
  simp only [TilemapView.tile, hofs]
  have : (decide ((x : Int) - ox < 0) || decide ((y : Int) - oy < 0) ||
      decide ((x : Int) - ox ≥ (v.data.width.toNat : Int)) ||
      decide ((y : Int) - oy ≥ (v.data.height.toNat : Int))) = true := by
    simp only [Bool.or_eq_true, decide_eq_true_eq]
    rcases hout with h | h | h | h
    · exact .inl (.inl (.inl h))
    · exact .inl (.inl (.inr h))
    · exact .inl (.inr h)
    · exact .inr h
  simp only [this, if_true]

/-- **lookups inside the stored area return the stored tile id**, given that the stored map
    holds `width * height` tiles (which loading guarantees) -/
theorem tile_inside (v : TilemapView) (x y : Nat) (ox oy : Int)
    (hofs : v.tileOffsets = .ok (ox, oy))
    (hsize : v.data.tiles.size = v.data.width.toNat * v.data.height.toNat)
    (hx0 : 0 ≤ (x : Int) - ox) (hy0 : 0 ≤ (y : Int) - oy)
    (hx : (x : Int) - ox < v.data.width.toNat) (hy : (y : Int) - oy < v.data.height.toNat) :
    ∃ id, v.data.tiles[((y : Int) - oy).toNat * v.data.width.toNat + ((x : Int) - ox).toNat]? = some id ∧
      v.tile x y = .ok id.toNat := by
  have hidx : ((y : Int) - oy).toNat * v.data.width.toNat + ((x : Int) - ox).toNat < v.data.tiles.size := by
    rw [hsize]
    have hxn : ((x : Int) - ox).toNat < v.data.width.toNat := by omega
    have hyn : ((y : Int) - oy).toNat < v.data.height.toNat := by omega
    have h1 : ((y : Int) - oy).toNat * v.data.width.toNat + ((x : Int) - ox).toNat
        < (((y : Int) - oy).toNat + 1) * v.data.width.toNat := by rw [Nat.succ_mul]; omega
    have h2 : (((y : Int) - oy).toNat + 1) * v.data.width.toNat ≤ v.data.height.toNat * v.data.width.toNat :=
      Nat.mul_le_mul_right _ (by omega)
    rw [Nat.mul_comm v.data.width.toNat]
    omega
  refine ⟨v.data.tiles[((y : Int) - oy).toNat * v.data.width.toNat + ((x : Int) - ox).toNat], by simp [hidx], ?_⟩
  simp only [TilemapView.tile, hofs]
  have : (decide ((x : Int) - ox < 0) || decide ((y : Int) - oy < 0) ||
      decide ((x : Int) - ox ≥ (v.data.width.toNat : Int)) ||
      decide ((y : Int) - oy ≥ (v.data.height.toNat : Int))) = false := by
    simp only [Bool.or_eq_false_iff, decide_eq_false_iff_not]
    omega
  simp [this, hidx]

/-- **tile image**: when it is produced it has exactly the tile size, and it is the window
    `[i * w*h, (i+1) * w*h)` of the tileset's pixels -/
theorem tileImage_spec (pal : Option Palette) (ts : Tileset Pixels) (i : Nat) (img : Image)
    (h : ts.tileImage pal i = .ok img) :
    img.w = ts.tileW.toNat ∧ img.h = ts.tileH.toNat ∧ i < ts.tileCount.toNat ∧
    ∃ px rgba, ts.pixels = some px ∧ pixelsToRgba pal px = .ok rgba ∧
      img.px = (rgba.extract (i * (ts.tileW.toNat * ts.tileH.toNat))
                 (i * (ts.tileW.toNat * ts.tileH.toNat) + ts.tileW.toNat * ts.tileH.toNat)).extract 0
                 (ts.tileW.toNat * ts.tileH.toNat) := by
  unfold Tileset.tileImage at h
  split at h
  · cases h
  · rename_i hi
    split at h
    · cases h
    · rename_i px hpx
      split at h
      · rename_i rgba hrgba
        dsimp only at h
        unfold Image.fromRaw at h
        split at h
        · cases h
        · cases h
          exact ⟨rfl, rfl, by omega, px, rgba, hpx, hrgba, rfl⟩
      · cases h
      · cases h

/-- **tileset image**: when it is produced it is the tileset's pixels in tile order — i.e. the
    tile images stacked vertically — with width `tile width` and height `tile height * tile count` -/
theorem tilesetImage_spec (m : Profile) (pal : Option Palette) (ts : Tileset Pixels) (img : Image)
    (h : ts.image m pal = .ok img) (hfit : ts.tileH.toNat * ts.tileCount.toNat < 4294967296) :
    img.w = ts.tileW.toNat ∧ img.h = ts.tileH.toNat * ts.tileCount.toNat ∧
    ∃ px rgba, ts.pixels = some px ∧ pixelsToRgba pal px = .ok rgba ∧
      img.px = rgba.extract 0 (ts.tileW.toNat * (ts.tileH.toNat * ts.tileCount.toNat)) := by
  unfold Tileset.image at h
  simp only [u32Mul, hfit, if_true] at h
  split at h
  · cases h
  · rename_i px hpx
    split at h
    · rename_i rgba hrgba
      unfold Image.fromRaw at h
      split at h
      · cases h
      · cases h
        exact ⟨rfl, rfl, px, rgba, hpx, hrgba, rfl⟩
    · cases h
    · cases h

end Ase.Proofs.C08
