import AseProofs.Props.C01Whole
import AseProofs.Lemmas.WholeFileCtx
/-
  C07  Encoding choices the format declares equivalent never change anything the API reports.

  All statements are corollaries of the whole-file theorem `C01.decode_encode`: the loaded
  result is a function of the *semantic* content `(headerSem p, framesSem m p)` of a program, so
  everything that content forgets — raw vs zlib storage (any stream the inflater maps back to
  the pixels), which chunk-count field carries the count, unused header / layer / tag / slice
  fields and flag bits, a pixel ratio with a zero component, padding at the end of a chunk,
  bytes after the last frame, frame-size slack — is irrelevant.  On top of that, on the semantic
  level: no-op items, a redundant legacy palette, the order of cel items.
-/
namespace Ase.Proofs.C07
open Ase Ase.Proofs Ase.Proofs.C01 Ase.Proofs.WholeFile

/-! ### 1. everything the semantic content forgets -/

/-- **encoding choices are irrelevant**: two well-formed programs with the same semantic header
    and the same semantic frames load to the same result (the same sprite, or the same error). -/
theorem encoding_choices_irrelevant (inflate : Inflate) (m : Profile) (p p' : Spec.Program)
    (hwf : ProgramWF inflate p) (hwf' : ProgramWF inflate p')
    (hh : Spec.headerSem p = Spec.headerSem p') (hf : Spec.framesSem m p = Spec.framesSem m p') :
    parse inflate m (Spec.encode p) = parse inflate m (Spec.encode p') := by
  rw [decode_encode inflate m p hwf, decode_encode inflate m p' hwf', hh, hf]

/-! What the semantic content forgets, field by field (all by `rfl`). -/

/-- raw vs zlib, and which stream: the meaning of an image cel does not mention `z`, nor the
    reserved bytes -/
theorem semItem_cel_storage (fmt : PixelFormat) (m : Profile) (layer : UInt16) (x y : Int16)
    (op : UInt8) (res res' : Bytes) (w h : UInt16) (px : Bytes) (z z' : Option Bytes) :
    Spec.semItem fmt m (.cel ⟨layer, x, y, op, res, .image w h px z⟩) =
      Spec.semItem fmt m (.cel ⟨layer, x, y, op, res', .image w h px z'⟩) := rfl

/-- the stream of a tilemap cel -/
theorem semItem_tilemap_storage (fmt : PixelFormat) (m : Profile) (layer : UInt16) (x y : Int16)
    (op : UInt8) (res res' : Bytes) (w h : UInt16) (mask : TileBitmask) (tiles : List UInt32)
    (z z' : Bytes) :
    Spec.semItem fmt m (.cel ⟨layer, x, y, op, res, .tilemap w h mask tiles z⟩) =
      Spec.semItem fmt m (.cel ⟨layer, x, y, op, res', .tilemap w h mask tiles z'⟩) := rfl

/-- unused layer fields: default width / height, the two reserved fields; the tileset index of
    a non-tilemap layer is not even encoded -/
theorem semItem_layer_unused (fmt : PixelFormat) (m : Profile) (l : Spec.LayerSpec)
    (dw dh : UInt16) (r1 : UInt8) (r2 : UInt16) :
    Spec.semItem fmt m (.layer { l with defW := dw, defH := dh, res1 := r1, res2 := r2 }) =
      Spec.semItem fmt m (.layer l) := rfl

/-- the stream and the "compressed length" field of a tileset, its reserved bytes -/
theorem semItem_tileset_storage (fmt : PixelFormat) (m : Profile) (t : Spec.TilesetSpec)
    (z res : Bytes) (clen : UInt32) :
    Spec.semItem fmt m (.tileset { t with z := z, clen := clen, reserved := res }) =
      Spec.semItem fmt m (.tileset t) := rfl

/-- the build profile never enters the meaning -/
theorem semItem_profile (fmt : PixelFormat) (m m' : Profile) (it : Spec.Item) :
    Spec.semItem fmt m it = Spec.semItem fmt m' it := by
  cases it <;> rfl

/-- a frame's meaning: the duration and the items' meanings — not the padding of the chunks,
    not which field carries the chunk count, not the frame-size slack -/
theorem frameSem_congr (fmt : PixelFormat) (m : Profile) (f f' : Spec.FrameSpec)
    (hd : f.duration = f'.duration)
    (hitems : f.chunks.map (·.item) = f'.chunks.map (·.item)) :
    Spec.frameSem fmt m f = Spec.frameSem fmt m f' := by
  have : f.chunks.map (fun c => Spec.semItem fmt m c.item)
      = f'.chunks.map (fun c => Spec.semItem fmt m c.item) := by
    have h := congrArg (List.map (Spec.semItem fmt m)) hitems
    rw [List.map_map, List.map_map] at h
    exact h
  simp only [Spec.frameSem, hd, this]

/-- the header's meaning: canvas size, colour depth (with the transparent index only for
    indexed files) and the number of frames — not the file size, flags, default speed, palette
    size hint, pixel ratio, grid, reserved bytes -/
theorem headerSem_congr (p p' : Spec.Program) (hn : p.frames.length = p'.frames.length)
    (hw : p.header.width = p'.header.width) (hh : p.header.height = p'.header.height)
    (hd : p.header.depth = p'.header.depth)
    (ht : p.header.depth.toNat = 8 → p.header.tci = p'.header.tci) :
    Spec.headerSem p = Spec.headerSem p' := by
  have hfmt : Spec.formatOf p.header.depth p.header.tci
      = Spec.formatOf p'.header.depth p'.header.tci := by
    rw [← hd]
    unfold Spec.formatOf
    by_cases h8 : p.header.depth.toNat = 8
    · rw [ht h8]
    · simp only [h8, if_false]
  simp only [Spec.headerSem, hn, hw, hh, hfmt]

theorem map_eq_of_zip {α β} (g : α → β) : ∀ (l l' : List α), l.length = l'.length →
    (∀ x ∈ l.zip l', g x.1 = g x.2) → l.map g = l'.map g
  | [], [], _, _ => rfl
  | [], _ :: _, h, _ => by simp at h
  | _ :: _, [], h, _ => by simp at h
  | a :: t, b :: t', h, hz => by
      have h1 : g a = g b := hz (a, b) (by simp)
      have h2 := map_eq_of_zip g t t' (by simpa using h)
        (fun x hx => hz x (by simp only [List.zip_cons_cons]; exact List.mem_cons_of_mem _ hx))
      simp only [List.map_cons, h1, h2]

/-- **same items, any representation**: programs that agree on canvas size, depth, transparent
    index, and frame by frame on the duration and the chunk items (up to what `semItem`
    forgets) load to the same result — whatever their padding, chunk-count convention, slack,
    unused header fields, pixel ratio and trailing bytes are. -/
theorem representation_irrelevant (inflate : Inflate) (m : Profile) (p p' : Spec.Program)
    (hwf : ProgramWF inflate p) (hwf' : ProgramWF inflate p')
    (hw : p.header.width = p'.header.width) (hh : p.header.height = p'.header.height)
    (hd : p.header.depth = p'.header.depth) (ht : p.header.tci = p'.header.tci)
    (hlen : p.frames.length = p'.frames.length)
    (hframes : ∀ ff ∈ p.frames.zip p'.frames, ff.1.duration = ff.2.duration ∧
      ff.1.chunks.map (fun c => Spec.semItem (Spec.formatOf p.header.depth p.header.tci) m c.item) =
      ff.2.chunks.map (fun c => Spec.semItem (Spec.formatOf p.header.depth p.header.tci) m c.item)) :
    parse inflate m (Spec.encode p) = parse inflate m (Spec.encode p') := by
  apply encoding_choices_irrelevant inflate m p p' hwf hwf'
  · exact headerSem_congr p p' hlen hw hh hd (fun _ => ht)
  · simp only [Spec.framesSem, ← hd, ← ht]
    apply map_eq_of_zip _ _ _ hlen
    intro ff hff
    obtain ⟨h1, h2⟩ := hframes ff hff
    simp only [Spec.frameSem, h1, h2]

/-! ### 2. no-op items -/

/-- a no-op item (colour profile none / sRGB, cel extra, mask, path) leaves the state alone -/
theorem stepSem_noop (frame : Nat) (pi : ParseInfo) : Spec.stepSem frame pi .noop = .ok pi := rfl

/-- **no-op items are irrelevant**: removing every no-op item from every frame does not change
    the result -/
theorem noop_irrelevant (h : Spec.SHeader) (frames : List (UInt16 × List Spec.SItem)) :
    Spec.semParse h (dropNoops frames) = Spec.semParse h frames := by
  unfold Spec.semParse
  rw [runFrames_dropNoops]

/-- inserting or removing no-op items anywhere: frame lists that agree after dropping the
    no-op items give the same result -/
theorem noop_irrelevant' (h : Spec.SHeader) (frames frames' : List (UInt16 × List Spec.SItem))
    (heq : dropNoops frames = dropNoops frames') :
    Spec.semParse h frames = Spec.semParse h frames' := by
  rw [← noop_irrelevant h frames, ← noop_irrelevant h frames', heq]

/-- … for encoded programs: colour-profile / cel-extra / mask / path chunks may be added or
    removed anywhere -/
theorem noop_chunks_irrelevant (inflate : Inflate) (m : Profile) (p p' : Spec.Program)
    (hwf : ProgramWF inflate p) (hwf' : ProgramWF inflate p')
    (hh : Spec.headerSem p = Spec.headerSem p')
    (hf : dropNoops (Spec.framesSem m p) = dropNoops (Spec.framesSem m p')) :
    parse inflate m (Spec.encode p) = parse inflate m (Spec.encode p') := by
  rw [decode_encode inflate m p hwf, decode_encode inflate m p' hwf', hh]
  exact noop_irrelevant' _ _ _ hf

/-- the items that mean `noop` -/
theorem semItem_noop (fmt : PixelFormat) (m : Profile) :
    (∀ a b c d, Spec.semItem fmt m (.colorProfile a b c d) = .noop) ∧
    (∀ code payload, Spec.semItem fmt m (.ignorable code payload) = .noop) :=
  ⟨fun _ _ _ _ => rfl, fun _ _ => rfl⟩

/-! ### 3. a legacy palette behind a palette -/

/-- when a palette is present a legacy palette item only sets the user-data context -/
theorem old_palette_sets_ctx_only (frame : Nat) (pi : ParseInfo) (p q : Palette)
    (h : pi.palette = some q) :
    Spec.stepSem frame pi (.oldPalette p) = .ok (setCtx (some .oldPalette) pi) :=
  stepSem_oldPalette_present frame pi p q h

/-- **redundant legacy palette**: with a palette present, a legacy palette item followed — after
    any number of items that do not touch the context (palette, external files, tileset, no-op,
    tags outside frame 0) — by an item that sets the context (layer, cel, slice, legacy palette,
    tags in frame 0) can be dropped.  (What is excluded is exactly a user-data item reaching the
    legacy palette's context: that one is reported as the sprite's user data.) -/
theorem redundant_old_palette (frame : Nat) (pi : ParseInfo) (p q : Palette)
    (hpal : pi.palette = some q) (mid : List Spec.SItem) (it : Spec.SItem)
    (rest : List Spec.SItem) (hmid : ∀ x ∈ mid, ctxNeutral frame x = true)
    (hit : setsCtx frame it = true) :
    Spec.runItems frame pi (.oldPalette p :: (mid ++ it :: rest)) =
      Spec.runItems frame pi (mid ++ it :: rest) := by
  simp only [Spec.runItems, stepSem_oldPalette_present frame pi p q hpal]
  exact runItems_ctx_overwritten frame mid it rest hmid hit _ pi

/-- the same at the very end of the file: the context is not part of the loaded sprite -/
theorem redundant_old_palette_at_end (h : Header) (fmt : PixelFormat) (frame : Nat)
    (pi : ParseInfo) (p q : Palette) (hpal : pi.palette = some q) :
    (Spec.runItems frame pi [.oldPalette p] >>= validate h fmt) = validate h fmt pi := by
  simp only [Spec.runItems, stepSem_oldPalette_present frame pi p q hpal, Res.bind_ok]
  rfl

/-! ### 4. the order of cel items -/

/-- table level: the per-frame cel table does not depend on the storage order -/
theorem cel_table_order_irrelevant {P} (xs ys : List (Nat × RawCel P)) (hperm : xs.Perm ys)
    (hdistinct : xs.Pairwise (fun a b => a.1 ≠ b.1)) : C02.tableOf xs = C02.tableOf ys :=
  C02.celOrder_irrelevant xs ys hperm hdistinct

/-- state level: two orders of the same cel items (distinct layers) lead to the same parser
    state up to the user-data context, including the same error when one of them collides with
    a cel already present or the frame index is invalid -/
theorem cel_order_irrelevant_state (frame : Nat) (x : Option UDCtx)
    (cs cs' : List (RawCel RawPixels)) (hperm : cs.Perm cs')
    (hdistinct : cs.Pairwise (fun a b => a.data.layerIndex.toNat ≠ b.data.layerIndex.toNat))
    (pi : ParseInfo) :
    (Spec.runItems frame pi (cs.map .cel)).map (setCtx x) =
      (Spec.runItems frame pi (cs'.map .cel)).map (setCtx x) :=
  runCels_perm frame x hperm hdistinct pi

/-- **the order of cel items is irrelevant**: a block of cel items on distinct layers, none of
    which is followed by user data — i.e. the block is followed, after context-neutral items, by
    a context-setting item — can be permuted without changing the result of the frame. -/
theorem cel_order_irrelevant (frame : Nat) (pi : ParseInfo) (pre : List Spec.SItem)
    (cs cs' : List (RawCel RawPixels)) (hperm : cs.Perm cs')
    (hdistinct : cs.Pairwise (fun a b => a.data.layerIndex.toNat ≠ b.data.layerIndex.toNat))
    (mid : List Spec.SItem) (it : Spec.SItem) (rest : List Spec.SItem)
    (hmid : ∀ x ∈ mid, ctxNeutral frame x = true) (hit : setsCtx frame it = true) :
    Spec.runItems frame pi (pre ++ (cs.map .cel ++ (mid ++ it :: rest))) =
      Spec.runItems frame pi (pre ++ (cs'.map .cel ++ (mid ++ it :: rest))) := by
  rw [runItems_append, runItems_append frame pre]
  cases Spec.runItems frame pi pre with
  | ok q =>
      simp only [Res.bind_ok]
      rw [runItems_append, runItems_append frame (cs'.map .cel)]
      exact bind_congr_modCtx (x := none) (runCels_perm frame none hperm hdistinct q)
        (fun c q' => runItems_ctx_overwritten frame mid it rest hmid hit c q')
  | err e => rfl
  | panic s => rfl

/-- the same for a block of cel items at the end of the file's last frame: the loaded sprite
    does not depend on their order -/
theorem cel_order_irrelevant_at_end (h : Header) (fmt : PixelFormat) (frame : Nat)
    (pi : ParseInfo) (pre : List Spec.SItem) (cs cs' : List (RawCel RawPixels))
    (hperm : cs.Perm cs')
    (hdistinct : cs.Pairwise (fun a b => a.data.layerIndex.toNat ≠ b.data.layerIndex.toNat)) :
    (Spec.runItems frame pi (pre ++ cs.map .cel) >>= validate h fmt) =
      (Spec.runItems frame pi (pre ++ cs'.map .cel) >>= validate h fmt) := by
  rw [runItems_append, runItems_append frame pre]
  cases Spec.runItems frame pi pre with
  | ok q =>
      simp only [Res.bind_ok]
      exact bind_congr_modCtx (x := none) (runCels_perm frame none hperm hdistinct q)
        (fun c q' => validate_setCtx h fmt c q')
  | err e => rfl
  | panic s => rfl

/-! ### non-vacuity -/

/-- `C01.tinyProgram` in another representation: the cel stored as a zlib stream `z`, the chunk
    count in the old field, frame-size slack, padding behind both chunks, other unused header
    and layer fields, a pixel ratio with a zero component, another default speed, another
    trailer -/
def tinyProgram' (z : Bytes) : Spec.Program :=
  { header := { fileSize := 77, width := 1, height := 1, depth := 32, flags := 0, speed := 1,
                ph1 := 5, ph2 := 6, tci := 9, ign1 := 1, ign2 := 2, numColors := 256,
                pixelW := 0, pixelH := 3, gridX := -1, gridY := 4, gridW := 0, gridH := 0,
                reserved := List.replicate 84 255 },
    frames := [{ duration := 100, oldCountOnly := true, oldField := 0, ph := 9, slack := 1000,
                 chunks := [
                   ⟨.layer ⟨3 + 128, 0, 0, 640, 480, 0, 255, 9, 9, [76, 49], 0⟩, [1, 2]⟩,
                   ⟨.cel ⟨0, 0, 0, 255, [1, 2, 3, 4, 5, 6, 7], .image 1 1 [10, 20, 30, 255] (some z)⟩,
                    [8, 9]⟩] }],
    trailer := [] }

theorem tinyProgram'_wf (inflate : Inflate) (z : Bytes) (hz : inflate (z ++ [8, 9]) = .ok [10, 20, 30, 255])
    (hlen : z.length < 1000000) : ProgramWF inflate (tinyProgram' z) := by
  refine ⟨rfl, by simp [tinyProgram'], rfl, Or.inr (Or.inr rfl), ?_⟩
  intro f hf
  simp only [tinyProgram', List.mem_singleton] at hf
  subst hf
  refine ⟨by simp, ?_, ?_⟩
  · simp [frameBytes, Spec.encChunks, Spec.encChunk, Spec.encItem, Spec.encLayer, Spec.encCel,
      Spec.encCelBody, strle]
    omega
  · intro c hc
    simp only [List.mem_cons, List.not_mem_nil, or_false] at hc
    rcases hc with rfl | rfl
    · exact ⟨by decide, by decide, by decide, by decide, by decide⟩
    · refine ⟨?_, rfl, hz, rfl⟩
      simp [chunkSize, Spec.encItem, Spec.encCel, Spec.encCelBody]
      omega

/-- both representations load to the same result, for every inflater that maps the stored
    stream (followed by the chunk's padding) back to the pixel bytes -/
example (inflate : Inflate) (m : Profile) (z : Bytes)
    (hz : inflate (z ++ [8, 9]) = .ok [10, 20, 30, 255]) (hlen : z.length < 1000000) :
    parse inflate m (Spec.encode tinyProgram) = parse inflate m (Spec.encode (tinyProgram' z)) :=
  encoding_choices_irrelevant inflate m _ _ (tinyProgram_wf inflate)
    (tinyProgram'_wf inflate z hz hlen) rfl rfl

end Ase.Proofs.C07
