import AseProofs.Props.C12
import AseProofs.Lemmas.FootprintMachine
/-
  C12, second half: the allocation account speaks about the DATA.

  `C12.alloc_bound` bounds the account `Alloc.reserved bs` by 64 MiB + 8192 bytes per input
  byte.  This file ties the account to what the model actually holds: the heap footprint
  (`Ase/Footprint.lean`) of the loaded sprite — and of the parser state after every prefix of
  the frames, whether or not loading fails later — never exceeds the account.  The only
  hypothesis is the deflate expansion limit on the `inflate` parameter.

  * `footprint_le_reserved`, `footprint_bound`        the loaded sprite;
  * `footprintParse_le_reserved`, `footprintParse_bound`
                                                     the parser state after `k ≤ numFrames` frames;
  * `footprintParse_midframe_le_reserved`             … and in the middle of the next frame;
  * building blocks (in `Lemmas/Footprint*.lean`): `runChunk_*` (decoders),
    `processChunk_footprint` (one chunk), `parseFrames_footprint`, `validate_footprint`.
-/
namespace Ase.Proofs.C12
open Ase Ase.Footprint

/-- the empty parser state: the two per-frame tables -/
theorem footprintParseV_new (n : Nat) (t : UInt16) :
    footprintParseV (ParseInfo.new n t) = 26 * n := by
  have h24 : rowSize rawPayload ([] : FrameCels RawPixels) = 24 := rfl
  simp only [footprintParseV, footprintParse, ParseInfo.new, celsSize, Array.toList_replicate,
    sumBy_replicate, h24, Array.size_replicate, optPaletteSize, optTagsSize, udSize, parentsSize,
    sumBy_nil, List.size_toArray, List.length_nil]
  omega

/-- the stages of a successful load -/
theorem parseFile_inv {inflate : Inflate} {m : Profile} {bs rest : Bytes} {s : Sprite}
    (h : parseFile bytesSrc inflate m bs = .ok (s, rest)) :
    ∃ hd r1 fmt pi, readHeader bytesSrc bs = .ok (hd, r1) ∧
      parseFrames bytesSrc inflate m fmt hd.numFrames.toNat 0
        (ParseInfo.new hd.numFrames.toNat hd.defaultTime) r1 = .ok (pi, rest) ∧
      validate hd fmt pi = .ok s := by
  unfold parseFile at h
  obtain ⟨hd, r1, h1, h2⟩ := bind_ok_inv h
  by_cases hpr : (!pixelRatioOk hd.pixelW hd.pixelH) = true
  · rw [if_pos hpr] at h2; cases h2
  · rw [if_neg hpr] at h2
    obtain ⟨fmt, r2, h3, h4⟩ := bind_ok_inv h2
    obtain ⟨_, rfl⟩ := lift_ok_inv h3
    obtain ⟨pi, r3, h5, h6⟩ := bind_ok_inv h4
    obtain ⟨h7, rfl⟩ := lift_ok_inv h6
    exact ⟨hd, _, fmt, pi, h1, h5, h7⟩

/-- **the parser state after any prefix of the frames** — whether or not loading fails later —
    holds at most what the account has reserved (with the `parents` table validation will add) -/
theorem footprintParseV_le_reserved (inflate : Inflate) (hexp : Alloc.ExpansionBounded inflate)
    (m : Profile) (fmt : PixelFormat) (bs : Bytes) (hd : Header) (r1 : Bytes)
    (hh : readHeader bytesSrc bs = .ok (hd, r1)) (k : Nat) (hk : k ≤ hd.numFrames.toNat)
    (pi : ParseInfo) (rest : Bytes)
    (hp : parseFrames bytesSrc inflate m fmt k 0
      (ParseInfo.new hd.numFrames.toNat hd.defaultTime) r1 = .ok (pi, rest)) :
    footprintParseV pi + Alloc.transientCost ≤ Alloc.reserved bs := by
  have h1 := parseFrames_footprint inflate hexp m fmt k 0 _ pi r1 rest hp
  have h2 := framesCost_mono k hd.numFrames.toNat r1 hk
  rw [footprintParseV_new] at h1
  unfold Alloc.reserved
  simp only [hh, Alloc.fixedCost]
  omega

theorem footprintParse_le_reserved (inflate : Inflate) (hexp : Alloc.ExpansionBounded inflate)
    (m : Profile) (fmt : PixelFormat) (bs : Bytes) (hd : Header) (r1 : Bytes)
    (hh : readHeader bytesSrc bs = .ok (hd, r1)) (k : Nat) (hk : k ≤ hd.numFrames.toNat)
    (pi : ParseInfo) (rest : Bytes)
    (hp : parseFrames bytesSrc inflate m fmt k 0
      (ParseInfo.new hd.numFrames.toNat hd.defaultTime) r1 = .ok (pi, rest)) :
    footprintParse pi ≤ Alloc.reserved bs := by
  have := footprintParseV_le_reserved inflate hexp m fmt bs hd r1 hh k hk pi rest hp
  simp only [footprintParseV] at this
  omega

theorem footprintParse_bound (inflate : Inflate) (hexp : Alloc.ExpansionBounded inflate)
    (m : Profile) (fmt : PixelFormat) (bs : Bytes) (hd : Header) (r1 : Bytes)
    (hh : readHeader bytesSrc bs = .ok (hd, r1)) (k : Nat) (hk : k ≤ hd.numFrames.toNat)
    (pi : ParseInfo) (rest : Bytes)
    (hp : parseFrames bytesSrc inflate m fmt k 0
      (ParseInfo.new hd.numFrames.toNat hd.defaultTime) r1 = .ok (pi, rest)) :
    footprintParse pi ≤ Alloc.bound bs.length :=
  Nat.le_trans (footprintParse_le_reserved inflate hexp m fmt bs hd r1 hh k hk pi rest hp)
    (alloc_bound bs)

theorem sum_map_append_le (cs1 cs2 : List Chunk) :
    (cs1.map Alloc.chunkCost).sum ≤ ((cs1 ++ cs2).map Alloc.chunkCost).sum := by
  simp only [List.map_append, List.sum_append]
  omega

/-- … and **in the middle of the next frame**: `k` frames are done, frame `k` has been framed
    (`readChunks` delivered `cs1 ++ cs2`) and the chunks `cs1` have been processed -/
theorem footprintParse_midframe_le_reserved (inflate : Inflate)
    (hexp : Alloc.ExpansionBounded inflate) (m : Profile) (fmt : PixelFormat) (bs : Bytes)
    (hd : Header) (r1 : Bytes) (hh : readHeader bytesSrc bs = .ok (hd, r1)) (k : Nat)
    (hk : k < hd.numFrames.toNat) (pi : ParseInfo) (r2 : Bytes)
    (hp : parseFrames bytesSrc inflate m fmt k 0
      (ParseInfo.new hd.numFrames.toNat hd.defaultTime) r1 = .ok (pi, r2))
    (fh : FrameHeader) (r3 r4 : Bytes) (cs1 cs2 : List Chunk)
    (hfh : readFrameHeader bytesSrc r2 = .ok (fh, r3))
    (hcs : readChunks bytesSrc fh.numChunks ((fh.numBytes.toNat : Int) - 16) r3
      = .ok (cs1 ++ cs2, r4))
    (pi' : ParseInfo)
    (hpc : processChunks inflate m fmt k
      { pi with frameTimes := pi.frameTimes.set! k fh.duration } cs1 = .ok pi') :
    footprintParse pi' ≤ Alloc.reserved bs := by
  obtain ⟨j, hj⟩ : ∃ j, hd.numFrames.toNat = k + (j + 1) := ⟨hd.numFrames.toNat - k - 1, by omega⟩
  have h1 := parseFrames_footprint_cont inflate hexp m fmt k 0 _ pi r1 r2 hp (j + 1)
  have h2 := framesCost_succ_of_ok hfh hcs j
  have h3 := processChunks_footprint inflate hexp m fmt k cs1 _ pi' hpc
  have h4 := sum_map_append_le cs1 cs2
  rw [footprintParseV_setFrameTime] at h3
  rw [footprintParseV_new, ← hj] at h1
  unfold Alloc.reserved
  simp only [hh, Alloc.fixedCost]
  simp only [footprintParseV] at h1 h3
  omega

/-! ### the loaded sprite -/

/-- **C12, the account bounds the data**: everything the loaded sprite holds — layers, cels with
    their pixel and tile buffers, tags, slices, palette, external files, tilesets, user data, the
    per-frame tables, the `parents` table — fits into what the account has reserved for the
    bytes of the file.  (The transient reservation of the account is not even needed.) -/
theorem footprint_le_reserved (inflate : Inflate) (hexp : Alloc.ExpansionBounded inflate)
    (m : Profile) (bs : Bytes) (s : Sprite) (rest : Bytes)
    (h : parseFile bytesSrc inflate m bs = .ok (s, rest)) :
    footprintSprite s ≤ Alloc.reserved bs := by
  obtain ⟨hd, r1, fmt, pi, h1, h2, h3⟩ := parseFile_inv h
  have h4 := validate_footprint hd fmt pi s h3
  have h5 := footprintParseV_le_reserved inflate hexp m fmt bs hd r1 h1 _ (Nat.le_refl _) pi rest h2
  omega

/-- **C12 for the data**: the heap footprint of a loaded sprite is at most 64 MiB + 8192 bytes
    per byte of the file -/
theorem footprint_bound (inflate : Inflate) (hexp : Alloc.ExpansionBounded inflate)
    (m : Profile) (bs : Bytes) (s : Sprite) (rest : Bytes)
    (h : parseFile bytesSrc inflate m bs = .ok (s, rest)) :
    footprintSprite s ≤ Alloc.bound bs.length :=
  Nat.le_trans (footprint_le_reserved inflate hexp m bs s rest h) (alloc_bound bs)

/-- the same for `parse` (`AsepriteFile::read`) -/
theorem parse_footprint_bound (inflate : Inflate) (hexp : Alloc.ExpansionBounded inflate)
    (m : Profile) (bs : Bytes) (s : Sprite) (h : parse inflate m bs = .ok s) :
    footprintSprite s ≤ Alloc.reserved bs ∧ footprintSprite s ≤ Alloc.bound bs.length := by
  unfold parse at h
  cases hp : parseFile bytesSrc inflate m bs with
  | ok r =>
      obtain ⟨s', rest⟩ := r
      rw [hp] at h
      simp only [Res.map_ok, Res.ok.injEq] at h
      subst h
      exact ⟨footprint_le_reserved inflate hexp m bs s' rest hp,
        footprint_bound inflate hexp m bs s' rest hp⟩
  | err e => rw [hp] at h; cases h
  | panic q => rw [hp] at h; cases h

/-! ### non-vacuity -/

section examples

/-- one RGBA frame with four chunks: a layer named "A", a compressed 1×1 cel, a user data chunk
    with the text "hi" (attached to the cel), a tags chunk with one tag named "T" -/
def demoFile : Bytes :=
  ([0,0,0,0, 0xE0,0xA5, 1,0, 1,0, 1,0, 32,0, 0,0,0,0, 100,0, 0,0,0,0, 0,0,0,0, 0, 0,0,0, 0,0,
    1, 1, 0,0, 0,0, 0,0, 0,0] ++ List.replicate 84 0)
  ++ [121,0,0,0, 0xFA,0xF1, 4,0, 100,0, 0,0, 0,0,0,0]
  ++ [25,0,0,0, 0x04,0x20, 1,0, 0,0, 0,0, 0,0, 0,0, 0,0, 255, 0, 0,0, 1,0, 65]
  ++ [30,0,0,0, 0x05,0x20, 0,0, 0,0, 0,0, 255, 2,0, 0,0,0,0,0,0,0, 1,0, 1,0, 10,20,30,255]
  ++ [14,0,0,0, 0x20,0x20, 1,0,0,0, 2,0, 104,105]
  ++ [36,0,0,0, 0x18,0x20, 1,0, 0,0,0,0,0,0,0,0, 0,0, 0,0, 0, 0,0, 0,0,0,0,0,0, 0,0,0,0, 1,0, 84]

/-- a stand-in inflater for the example ("stored" data): it satisfies the expansion limit -/
def storedInflate : Inflate := fun z => .ok z

theorem storedInflate_bounded : Alloc.ExpansionBounded storedInflate := by
  intro z out h
  simp only [storedInflate, Res.ok.injEq] at h
  subst h
  omega

/-- an inflater that always fails satisfies the limit vacuously -/
example : Alloc.ExpansionBounded (fun _ => .err .invalid) := by
  intro z out h; cases h

def demoCheck : Res (Sprite × Bytes) → Bool
  | .ok (s, rest) =>
      -- layer 72+1, parents 8, cel row 24 + cel 96 + 4 pixel bytes + user data 32+2,
      -- frame time 2, tag 64+1
      footprintSprite s == 306 && rest.length == 0 && s.layers.size == 1 && s.tags.size == 1
  | _ => false

theorem demo_footprint :
    demoCheck (parseFile bytesSrc storedInflate Profile.checked demoFile) = true := by
  decide +kernel

/-- the hypotheses of `footprint_le_reserved` are satisfiable, the footprint of the loaded demo
    file is 306 bytes, and the theorem places it below the account and the bound of C12 -/
example : ∃ s rest, parseFile bytesSrc storedInflate Profile.checked demoFile = .ok (s, rest) ∧
    footprintSprite s = 306 ∧ footprintSprite s ≤ Alloc.reserved demoFile ∧
    footprintSprite s ≤ Alloc.bound demoFile.length := by
  have h := demo_footprint
  cases hp : parseFile bytesSrc storedInflate Profile.checked demoFile with
  | err e => rw [hp] at h; cases h
  | panic q => rw [hp] at h; cases h
  | ok r =>
      obtain ⟨s, rest⟩ := r
      rw [hp] at h
      simp only [demoCheck, Bool.and_eq_true, beq_iff_eq] at h
      exact ⟨s, rest, rfl, h.1.1.1,
        footprint_le_reserved _ storedInflate_bounded _ _ s rest hp,
        footprint_bound _ storedInflate_bounded _ _ s rest hp⟩

/-- the account of the demo file, and the bound -/
example : Alloc.reserved demoFile = 9693179 ∧ Alloc.bound demoFile.length = 69148672 := by
  decide +kernel

end examples

end Ase.Proofs.C12
