import Ase.Parse
/-
  C15  Documented-unsupported features are refused, not silently ignored.
  One refusal lemma per feature (at the decoder that meets the feature) and the lifting lemma:
  a load succeeds only if every chunk of every frame decoded successfully.
-/
namespace Ase.Proofs.C15
open Ase

/-- pixel aspect ratio: accepted iff a component is 0 or the ratio is 1:1 -/
theorem pixelRatio_rule (pw ph : UInt8) :
    pixelRatioOk pw ph = true ↔ (pw.toNat = 0 ∨ ph.toNat = 0 ∨ (pw.toNat = 1 ∧ ph.toNat = 1)) := by
  simp only [pixelRatioOk, Bool.not_eq_true', Bool.and_eq_false_iff, bne_eq_false_iff_eq,
    Bool.not_eq_false', Bool.and_eq_true, beq_iff_eq]
  rw [or_assoc]

/-- a file whose header declares any other pixel ratio is refused -/
theorem pixelRatio_refused {σ} (S : Src σ) (inflate : Inflate) (m : Profile) (s s' : σ) (h : Header)
    (hh : readHeader S s = .ok (h, s')) (hbad : pixelRatioOk h.pixelW h.pixelH = false) :
    parseFile S inflate m s = .err .unsupported := by
  simp [parseFile, RdS.bind_run, hh, hbad]

/-- colour depth other than 8 / 16 / 32 is refused -/
theorem colorDepth_refused (d : UInt16) (tci : UInt8)
    (hd : d.toNat ≠ 8 ∧ d.toNat ≠ 16 ∧ d.toNat ≠ 32) : parsePixelFormat d tci = .err .invalid := by
  unfold parsePixelFormat
  split <;> simp_all

theorem colorDepth_refused_file {σ} (S : Src σ) (inflate : Inflate) (m : Profile) (s s' : σ) (h : Header)
    (hh : readHeader S s = .ok (h, s')) (hok : pixelRatioOk h.pixelW h.pixelH = true)
    (hd : h.colorDepth.toNat ≠ 8 ∧ h.colorDepth.toNat ≠ 16 ∧ h.colorDepth.toNat ≠ 32) :
    parseFile S inflate m s = .err .invalid := by
  simp [parseFile, RdS.bind_run, hh, hok, colorDepth_refused _ _ hd]

/-- unknown chunk types are refused -/
theorem chunkType_known (code : UInt16) (ty : ChunkType) (h : parseChunkType code = .ok ty) :
    code.toNat ∈ [0x0004, 0x0011, 0x2004, 0x2005, 0x2006, 0x2007, 0x2008, 0x2016, 0x2017, 0x2018,
                  0x2019, 0x2020, 0x2022, 0x2023] := by
  unfold parseChunkType at h
  split at h <;> simp_all

/-- unknown layer types are refused -/
theorem layerType_refused (id : UInt16) (h : 2 < id.toNat) (bs : Bytes) :
    parseLayerType id bs = .err .invalid := by
  unfold parseLayerType
  generalize id.toNat = n at h
  match n, h with
  | n + 3, _ => rfl

/-- unknown blend modes are refused -/
theorem blendMode_refused (id : UInt16) (h : 18 < id.toNat) (bs : Bytes) :
    parseBlendMode id bs = .err .invalid := by
  have : ¬ id.toNat ≤ 18 := by omega
  simp [parseBlendMode, this]

/-- unknown cel types are refused -/
theorem celType_refused (inflate : Inflate) (fmt : PixelFormat) (t : UInt16) (h : 3 < t.toNat) (bs : Bytes) :
    parseCelContent inflate fmt t bs = .err .invalid := by
  unfold parseCelContent
  generalize t.toNat = n at h
  match n, h with
  | n + 4, _ => rfl

/-- an animation direction other than 0/1/2 is refused: success implies a direction ≤ 2 -/
theorem tagDirection_supported (bs : Bytes) (t : Tag) (r : Bytes) (h : parseTag bs = .ok (t, r)) :
    t.direction ≤ 2 := by
  simp only [parseTag, RdS.bind_run] at h
  split at h <;> try cases h
  split at h <;> try cases h
  split at h <;> try cases h
  split at h <;> try cases h
  split at h <;> try cases h
  split at h <;> try cases h
  split at h <;> try cases h
  split at h
  · rename_i hd
    cases h
    exact hd
  · cases h

/-- a tilemap with other than 32 bits per tile is refused: success implies 32 -/
theorem tilemapBits_supported (inflate : Inflate) (bs : Bytes) (t : TilemapData) (r : Bytes)
    (h : parseTilemap inflate bs = .ok (t, r)) :
    ∃ w hh bits b1 b2 b3, readU16 bytesSrc bs = .ok (w, b1) ∧ readU16 bytesSrc b1 = .ok (hh, b2) ∧
      readU16 bytesSrc b2 = .ok (bits, b3) ∧ bits.toNat = 32 := by
  simp only [parseTilemap, RdS.bind_run] at h
  split at h
  · rename_i w b1 h1
    split at h
    · rename_i hh b2 h2
      split at h
      · rename_i bits b3 h3
        split at h
        · cases h
        · rename_i hb
          refine ⟨w, hh, bits, b1, b2, b3, h1, h2, h3, ?_⟩
          simpa using hb
      · cases h
      · cases h
    · cases h
    · cases h
  · cases h
  · cases h

/-- a tileset whose pixels are not embedded is refused by validation -/
theorem external_tileset_refused (pal : Option Palette) (fmt : PixelFormat) :
    ∀ (l : List (Nat × Tileset RawPixels)), (∃ kt ∈ l, kt.2.pixels = none) →
      ∃ e, validateTilesets pal fmt l = .err e := by
  intro l
  induction l with
  | nil => intro ⟨_, h, _⟩; cases h
  | cons hd tl ih =>
      intro ⟨kt, hmem, hnone⟩
      obtain ⟨k, t⟩ := hd
      unfold validateTilesets
      cases hp : t.pixels with
      | none => exact ⟨_, rfl⟩
      | some raw =>
          simp only
          cases hv : validatePixels pal fmt false raw with
          | err e => exact ⟨e, rfl⟩
          | panic s =>
              cases raw <;> simp [validatePixels] at hv
              all_goals (split at hv <;> try cases hv)
              all_goals (split at hv <;> try cases hv)
              all_goals (split at hv <;> cases hv)
          | ok px =>
              have hmem' : kt ∈ tl := by
                rcases List.mem_cons.mp hmem with h | h
                · subst h; simp [hp] at hnone
                · exact h
              obtain ⟨e, he⟩ := ih ⟨kt, hmem', hnone⟩
              exact ⟨e, by simp [he]⟩

/-- colour profiles: success implies type 0/1 without the fixed-gamma flag, i.e. an embedded
    ICC profile, an unknown profile type and the fixed-gamma flag are all refused -/
theorem colorProfile_supported (bs r : Bytes) (h : parseColorProfileChunk bs = .ok ((), r)) :
    ∃ pt fl b1 b2, readU16 bytesSrc bs = .ok (pt, b1) ∧ readU16 bytesSrc b1 = .ok (fl, b2) ∧
      pt.toNat ≤ 1 ∧ fl.toNat % 2 = 0 := by
  simp only [parseColorProfileChunk, RdS.bind_run] at h
  split at h
  · rename_i pt b1 h1
    split at h
    · rename_i fl b2 h2
      split at h
      · split at h
        · split at h
          · cases h
          · rename_i hpt
            split at h
            · cases h
            · rename_i hfl
              split at h
              · cases h
              · rename_i hicc
                refine ⟨pt, fl, b1, b2, h1, h2, ?_, ?_⟩
                · simp at hpt hicc; omega
                · simp at hfl; omega
        · cases h
        · cases h
      · cases h
      · cases h
    · cases h
    · cases h
  · cases h
  · cases h

/-- **lifting**: if the chunks of a frame were processed successfully, every chunk was
    (so a single refused chunk anywhere makes the whole load fail) -/
theorem processChunks_ok_all (inflate : Inflate) (m : Profile) (fmt : PixelFormat) (frame : Nat) :
    ∀ (cs : List Chunk) (pi pi' : ParseInfo),
      processChunks inflate m fmt frame pi cs = .ok pi' →
      ∀ c ∈ cs, ∃ a b, processChunk inflate m fmt frame a c = .ok b := by
  intro cs
  induction cs with
  | nil => intro _ _ _ c hc; cases hc
  | cons hd tl ih =>
      intro pi pi' h c hc
      unfold processChunks at h
      split at h
      · rename_i pi1 h1
        rcases List.mem_cons.mp hc with rfl | hmem
        · exact ⟨pi, pi1, h1⟩
        · exact ih pi1 pi' h c hmem
      · cases h
      · cases h

theorem processChunks_err_of_chunk_err (inflate : Inflate) (m : Profile) (fmt : PixelFormat)
    (frame : Nat) (cs : List Chunk) (pi : ParseInfo) (c : Chunk) (hc : c ∈ cs)
    (hrefuse : ∀ a, ∃ e, processChunk inflate m fmt frame a c = .err e) :
    ∀ pi', processChunks inflate m fmt frame pi cs ≠ .ok pi' := by
  intro pi' h
  obtain ⟨a, b, hab⟩ := processChunks_ok_all inflate m fmt frame cs pi pi' h c hc
  obtain ⟨e, he⟩ := hrefuse a
  rw [he] at hab
  cases hab

end Ase.Proofs.C15
