import AseProofs.Lemmas.BlendBasic
/-
  C17  Blend results obey mode-independent alpha and identity laws.
  All statements are about the model `Ase.Blend.blend ops m mode backdrop src opacity`, for
  every floating-point instance `ops`, every build profile `m`, all 19 modes and all pixels.
-/
namespace Ase.Proofs.C17
open Ase Ase.Blend Ase.Proofs

theorem fromRgbaI32_ok {m : Profile} {r g b a : Int} {x : RGBA}
    (h : fromRgbaI32 m r g b a = .ok x) : x = ⟨asU8 r, asU8 g, asU8 b, asU8 a⟩ := by
  unfold fromRgbaI32 at h
  split at h
  · cases h
  · cases h; rfl

/-- the alpha channel `normal` produces: a function of the two alphas and the opacity only -/
def nAlpha (ba sa : UInt8) (o : UInt8) : UInt8 :=
  if ba == 0 then mulUn8 (ch sa) (ch o)
  else if sa == 0 then ba
  else asU8 (ch (mulUn8 (ch sa) (ch o)) + ch ba
            - ch (mulUn8 (ch ba) (ch (mulUn8 (ch sa) (ch o)))))

theorem normal_alpha {m : Profile} {b s : RGBA} {o : UInt8} {r : RGBA}
    (h : normal m b s o = .ok r) : r.a = nAlpha b.a s.a o := by
  unfold normal at h
  unfold nAlpha
  by_cases hb : b.a == 0
  · simp only [hb, if_true] at h ⊢
    have := fromRgbaI32_ok h
    subst this
    simp
  · simp only [hb, Bool.false_eq_true, if_false] at h ⊢
    by_cases hs : s.a == 0
    · simp only [hs, if_true] at h ⊢
      cases h; rfl
    · simp only [hs, Bool.false_eq_true, if_false] at h ⊢
      split at h
      · cases h
      · have := fromRgbaI32_ok h
        subst this
        rfl

/-- every baseline function ends in `normal` applied to a source with the original alpha -/
theorem baseline_alpha {F : Type} (ops : FOps F) (m : Profile) (mode : Nat) (b s : RGBA)
    (o : UInt8) (r : RGBA) (h : baseline ops m mode b s o = .ok r) :
    r.a = nAlpha b.a s.a o := by
  have key : ∀ s' : RGBA, s'.a = s.a → normal m b s' o = .ok r → r.a = nAlpha b.a s.a o := by
    intro s' hs' hn
    rw [← hs']; exact normal_alpha hn
  have chan : ∀ f : Int → Int → Res UInt8, blendChannel m f b s o = .ok r →
      r.a = nAlpha b.a s.a o := by
    intro f hf
    unfold blendChannel at hf
    cases h1 : f (ch b.r) (ch s.r) with
    | err e => simp [h1] at hf
    | panic p => simp [h1] at hf
    | ok r1 =>
      cases h2 : f (ch b.g) (ch s.g) with
      | err e => simp [h1, h2] at hf
      | panic p => simp [h1, h2] at hf
      | ok r2 =>
        cases h3 : f (ch b.b) (ch s.b) with
        | err e => simp [h1, h2, h3] at hf
        | panic p => simp [h1, h2, h3] at hf
        | ok r3 =>
          simp only [h1, h2, h3, Res.bind_ok] at hf
          exact key ⟨r1, r2, r3, s.a⟩ rfl hf
  have viaFrom : ∀ (x : Res RGBA), (x >>= fun s' => normal m b s' o) = .ok r →
      (∀ s', x = .ok s' → s'.a = s.a) → r.a = nAlpha b.a s.a o := by
    intro x hx hxa
    cases hx1 : x with
    | err e => simp [hx1] at hx
    | panic p => simp [hx1] at hx
    | ok s' =>
      simp only [hx1, Res.bind_ok] at hx
      exact key s' (hxa s' hx1) hx
  have fromA : ∀ (r' g' b' : Int) (s' : RGBA), fromRgbaI32 m r' g' b' (ch s.a) = .ok s' →
      s'.a = s.a := by
    intro r' g' b' s' hf
    have := fromRgbaI32_ok hf
    subst this
    simp
  unfold baseline at h
  split at h
  all_goals first
    | exact chan _ h
    | (unfold additionBase at h; exact viaFrom _ h (fun s' hs' => fromA _ _ _ s' hs'))
    | (unfold subtractBase at h; exact viaFrom _ h (fun s' hs' => fromA _ _ _ s' hs'))
    | (unfold softLightBase at h; exact viaFrom _ h (fun s' hs' => fromA _ _ _ s' hs'))
    | (unfold hueBase at h; exact viaFrom _ h (fun s' hs' => fromA _ _ _ s' hs'))
    | (unfold saturationBase at h; exact viaFrom _ h (fun s' hs' => fromA _ _ _ s' hs'))
    | (unfold colorBase at h; exact viaFrom _ h (fun s' hs' => fromA _ _ _ s' hs'))
    | (unfold luminosityBase at h; exact viaFrom _ h (fun s' hs' => fromA _ _ _ s' hs'))

/-- merging two pixels of equal alpha keeps that alpha -/
theorem merge_alpha_same (x y : RGBA) (op : UInt8) (h : x.a = y.a) : (merge x y op).a = x.a := by
  unfold merge
  simp only [← h, blend8_same]
  by_cases hx : x.a == 0
  · simp only [hx, if_true]
    simp at hx
    simp [hx]
  · simp only [hx, Bool.false_eq_true, if_false]

/-- **C17 (a)**: for every mode the result's alpha equals the Normal-mode result's alpha. -/
theorem alpha_eq_normal {F : Type} (ops : FOps F) (m : Profile) (mode : Nat) (b s : RGBA)
    (o : UInt8) (r rn : RGBA) (h : blend ops m mode b s o = .ok r)
    (hn : normal m b s o = .ok rn) : r.a = rn.a := by
  rw [normal_alpha hn]
  unfold blend at h
  by_cases hm : mode == 0
  · simp only [hm, if_true] at h
    exact normal_alpha h
  · simp only [hm, Bool.false_eq_true, if_false] at h
    unfold blender at h
    by_cases hb : b.a != 0
    · simp only [hb, if_true] at h
      rw [hn] at h
      simp only [Res.bind_ok] at h
      cases hbl : baseline ops m mode b s o with
      | err e => simp [hbl] at h
      | panic p => simp [hbl] at h
      | ok bl =>
        simp only [hbl, Res.bind_ok, Res.pure_eq, Res.ok.injEq] at h
        have ha1 : rn.a = bl.a := by
          rw [normal_alpha hn, baseline_alpha ops m mode b s o bl hbl]
        have ha2 : (merge rn bl b.a).a = rn.a := merge_alpha_same _ _ _ ha1
        have ha3 := merge_alpha_same (merge rn bl b.a) bl
          (mulUn8 (ch b.a) (ch (mulUn8 (ch s.a) (ch o)))) (by rw [ha2, ha1])
        rw [← h, ha3, ha2]
        exact normal_alpha hn
    · simp only [hb, Bool.false_eq_true, if_false] at h
      exact normal_alpha h


/-! ### identity laws -/

theorem fromRgbaI32_bytes (m : Profile) (r g b a : UInt8) :
    fromRgbaI32 m (ch r) (ch g) (ch b) (ch a) = .ok ⟨r, g, b, a⟩ := by
  simp [fromRgbaI32, inByte_ch]

theorem fromRgbaI32_inRange (m : Profile) (r g b a : Int)
    (hr : 0 ≤ r ∧ r ≤ 255) (hg : 0 ≤ g ∧ g ≤ 255) (hb : 0 ≤ b ∧ b ≤ 255) (ha : 0 ≤ a ∧ a ≤ 255) :
    fromRgbaI32 m r g b a = .ok ⟨asU8 r, asU8 g, asU8 b, asU8 a⟩ := by
  have : (inByte r && inByte g && inByte b && inByte a) = true := by
    simp [inByte]; omega
  simp [fromRgbaI32, this]

/-- **C17 (c)**: over a fully transparent backdrop every mode gives the source colour with
    alpha scaled by the opacity (and never fails, in either build profile). -/
theorem over_transparent {F : Type} (ops : FOps F) (m : Profile) (mode : Nat) (b s : RGBA)
    (o : UInt8) (hb : b.a = 0) :
    blend ops m mode b s o = .ok ⟨s.r, s.g, s.b, mulUn8 (ch s.a) (ch o)⟩ := by
  have hn : normal m b s o = .ok ⟨s.r, s.g, s.b, mulUn8 (ch s.a) (ch o)⟩ := by
    unfold normal
    simp only [hb, beq_self_eq_true, if_true]
    exact fromRgbaI32_bytes m _ _ _ _
  unfold blend
  by_cases hm : mode == 0
  · simp only [hm, if_true]; exact hn
  · simp only [hm, Bool.false_eq_true, if_false]
    unfold blender
    simp [hb, hn]

theorem merge_self (x : RGBA) (op : UInt8) (hx : x.a ≠ 0) : merge x x op = x := by
  unfold merge
  have : (x.a == 0) = false := by simpa using hx
  simp [this, blend8_same]

theorem normal_src_transparent (m : Profile) (b s : RGBA) (o : UInt8) (hb : b.a ≠ 0)
    (hs : s.a = 0) : normal m b s o = .ok b := by
  unfold normal
  have : (b.a == 0) = false := by simpa using hb
  simp [this, hs]

theorem tdiv_zero_left' (x : Int) : Int.tdiv 0 x = 0 := by simp

theorem normal_zero_opacity (m : Profile) (b s : RGBA) (hb : b.a ≠ 0) :
    normal m b s 0 = .ok b := by
  by_cases hs : s.a = 0
  · exact normal_src_transparent m b s 0 hb hs
  · unfold normal
    have h1 : (b.a == 0) = false := by simpa using hb
    have h2 : (s.a == 0) = false := by simpa using hs
    have hz : ch (0 : UInt8) = 0 := rfl
    have hm0 : ∀ a : Int, ch (mulUn8 a 0) = 0 := by
      intro a; simp [mulUn8, mulUn8I_zero_right]; rfl
    have hba : ch b.a ≠ 0 := by
      intro h; exact hb ((ch_eq_zero_iff _).mp h)
    simp only [h1, h2, Bool.false_eq_true, if_false, hz, hm0, Int.zero_add, Int.mul_zero,
      Int.sub_zero, tdiv_zero_left', Int.add_zero]
    have : (ch b.a == 0) = false := by simpa using hba
    simp only [this, Bool.false_eq_true, if_false]
    exact fromRgbaI32_bytes m _ _ _ _

/-- helper: if `normal` maps every source of the given alpha to `b`, so does the whole mode -/
theorem blend_id_of_normal_id {F : Type} (ops : FOps F) (m : Profile) (mode : Nat) (b s : RGBA)
    (o : UInt8) (hb : b.a ≠ 0)
    (hnorm : ∀ s' : RGBA, s'.a = s.a → normal m b s' o = .ok b)
    (r : RGBA) (h : blend ops m mode b s o = .ok r) : r = b := by
  unfold blend at h
  by_cases hm : mode == 0
  · simp only [hm, if_true] at h
    rw [hnorm s rfl] at h; cases h; rfl
  · simp only [hm, Bool.false_eq_true, if_false] at h
    unfold blender at h
    have hb' : (b.a != 0) = true := by simpa using hb
    simp only [hb', if_true, hnorm s rfl, Res.bind_ok] at h
    cases hbl : baseline ops m mode b s o with
    | err e => simp [hbl] at h
    | panic p => simp [hbl] at h
    | ok bl =>
      simp only [hbl, Res.bind_ok, Res.pure_eq, Res.ok.injEq] at h
      -- the baseline result is `normal b s' o` for a source `s'` with the same alpha
      have hblb : bl = b := by
        have chan : ∀ f : Int → Int → Res UInt8, blendChannel m f b s o = .ok bl → bl = b := by
          intro f hf
          unfold blendChannel at hf
          cases h1 : f (ch b.r) (ch s.r) with
          | err e => simp [h1] at hf
          | panic p => simp [h1] at hf
          | ok r1 =>
            cases h2 : f (ch b.g) (ch s.g) with
            | err e => simp [h1, h2] at hf
            | panic p => simp [h1, h2] at hf
            | ok r2 =>
              cases h3 : f (ch b.b) (ch s.b) with
              | err e => simp [h1, h2, h3] at hf
              | panic p => simp [h1, h2, h3] at hf
              | ok r3 =>
                simp only [h1, h2, h3, Res.bind_ok] at hf
                rw [hnorm ⟨r1, r2, r3, s.a⟩ rfl] at hf
                cases hf; rfl
        have viaFrom : ∀ (x : Res RGBA), (x >>= fun s' => normal m b s' o) = .ok bl →
            (∀ s', x = .ok s' → s'.a = s.a) → bl = b := by
          intro x hx hxa
          cases hx1 : x with
          | err e => simp [hx1] at hx
          | panic p => simp [hx1] at hx
          | ok s' =>
            simp only [hx1, Res.bind_ok] at hx
            rw [hnorm s' (hxa s' hx1)] at hx
            cases hx; rfl
        have fromA : ∀ (r' g' b' : Int) (s' : RGBA), fromRgbaI32 m r' g' b' (ch s.a) = .ok s' →
            s'.a = s.a := by
          intro r' g' b' s' hf
          have := fromRgbaI32_ok hf
          subst this
          simp
        unfold baseline at hbl
        split at hbl
        all_goals first
          | exact chan _ hbl
          | (unfold additionBase at hbl; exact viaFrom _ hbl (fun s' hs' => fromA _ _ _ s' hs'))
          | (unfold subtractBase at hbl; exact viaFrom _ hbl (fun s' hs' => fromA _ _ _ s' hs'))
          | (unfold softLightBase at hbl; exact viaFrom _ hbl (fun s' hs' => fromA _ _ _ s' hs'))
          | (unfold hueBase at hbl; exact viaFrom _ hbl (fun s' hs' => fromA _ _ _ s' hs'))
          | (unfold saturationBase at hbl; exact viaFrom _ hbl (fun s' hs' => fromA _ _ _ s' hs'))
          | (unfold colorBase at hbl; exact viaFrom _ hbl (fun s' hs' => fromA _ _ _ s' hs'))
          | (unfold luminosityBase at hbl; exact viaFrom _ hbl (fun s' hs' => fromA _ _ _ s' hs'))
      subst hblb
      rw [merge_self bl _ hb, merge_self bl _ hb] at h
      exact h.symm

/-- **C17 (b1)**: a fully transparent source pixel leaves a visible backdrop pixel unchanged,
    in every mode. -/
theorem transparent_src_id {F : Type} (ops : FOps F) (m : Profile) (mode : Nat) (b s : RGBA)
    (o : UInt8) (hb : b.a ≠ 0) (hs : s.a = 0) (r : RGBA)
    (h : blend ops m mode b s o = .ok r) : r = b :=
  blend_id_of_normal_id ops m mode b s o hb
    (fun s' hs' => normal_src_transparent m b s' o hb (by rw [hs', hs])) r h

/-- **C17 (b2)**: a zero opacity product leaves a visible backdrop pixel unchanged, in every mode. -/
theorem zero_opacity_id {F : Type} (ops : FOps F) (m : Profile) (mode : Nat) (b s : RGBA)
    (hb : b.a ≠ 0) (r : RGBA) (h : blend ops m mode b s 0 = .ok r) : r = b :=
  blend_id_of_normal_id ops m mode b s 0 hb (fun s' _ => normal_zero_opacity m b s' hb) r h


/-! ### ranges: no debug assertion fires, no division by zero (integer modes) -/

theorem channel_range (bc sc sa ra : Int) (hb0 : 0 ≤ bc) (hb : bc ≤ 255) (hs0 : 0 ≤ sc)
    (hs : sc ≤ 255) (hra : 0 < ra) (hsa0 : 0 ≤ sa) (hsa : sa ≤ ra) :
    0 ≤ bc + Int.tdiv ((sc - bc) * sa) ra ∧ bc + Int.tdiv ((sc - bc) * sa) ra ≤ 255 := by
  rcases Int.le_total 0 (sc - bc) with hd | hd
  · have := tdiv_scaled_nonneg (sc - bc) sa ra hra hsa0 hsa hd
    omega
  · have := tdiv_scaled_nonpos (sc - bc) sa ra hra hsa0 hsa hd
    omega

/-- `normal` never fails, in either build profile: its alpha is a non-zero byte when it
    divides by it and every channel stays in 0..255, so neither the division nor the range
    `debug_assert!`s of `from_rgba_i32` can fire. -/
theorem normal_total (m : Profile) (b s : RGBA) (o : UInt8) : ∃ r, normal m b s o = .ok r := by
  unfold normal
  by_cases hb : b.a == 0
  · simp only [hb, if_true]
    exact ⟨_, fromRgbaI32_bytes m _ _ _ _⟩
  · simp only [hb, Bool.false_eq_true, if_false]
    by_cases hs : s.a == 0
    · simp only [hs, if_true]; exact ⟨_, rfl⟩
    · simp only [hs, Bool.false_eq_true, if_false]
      have hba1 : 1 ≤ ch b.a := by
        have h0 := ch_nonneg b.a
        have : ch b.a ≠ 0 := by
          intro h; simp [(ch_eq_zero_iff _).mp h] at hb
        omega
      have hsa0 := ch_nonneg (mulUn8 (ch s.a) (ch o))
      have hsa := ch_le (mulUn8 (ch s.a) (ch o))
      rw [ch_mulUn8 (ch b.a) (ch (mulUn8 (ch s.a) (ch o))) (by omega) (ch_le _) hsa0 hsa]
      have hr := normal_ra_range (ch (mulUn8 (ch s.a) (ch o))) (ch b.a) hsa0 hsa hba1 (ch_le _)
      generalize ch (mulUn8 (ch s.a) (ch o)) = sa at *
      generalize hra : sa + ch b.a - mulUn8I (ch b.a) sa = ra at *
      have : (ra == 0) = false := by
        have : ra ≠ 0 := by omega
        simpa using this
      simp only [this, Bool.false_eq_true, if_false]
      have c1 := channel_range (ch b.r) (ch s.r) sa ra (ch_nonneg _) (ch_le _) (ch_nonneg _)
        (ch_le _) (by omega) hsa0 (by omega)
      have c2 := channel_range (ch b.g) (ch s.g) sa ra (ch_nonneg _) (ch_le _) (ch_nonneg _)
        (ch_le _) (by omega) hsa0 (by omega)
      have c3 := channel_range (ch b.b) (ch s.b) sa ra (ch_nonneg _) (ch_le _) (ch_nonneg _)
        (ch_le _) (by omega) hsa0 (by omega)
      exact ⟨_, fromRgbaI32_inRange m _ _ _ _ c1 c2 c3 ⟨by omega, by omega⟩⟩

/-- **C17 (d)**: Normal mode at full opacity with an opaque source returns the source. -/
theorem normal_full_opaque {F : Type} (ops : FOps F) (m : Profile) (b s : RGBA)
    (hs : s.a = 255) : blend ops m 0 b s 255 = .ok s := by
  have hch : ch (255 : UInt8) = 255 := rfl
  have hm : mulUn8 255 255 = 255 := by decide
  unfold blend
  simp only [beq_self_eq_true, if_true]
  unfold normal
  by_cases hb : b.a == 0
  · simp only [hb, if_true, hs, hch, hm]
    have := fromRgbaI32_bytes m s.r s.g s.b 255
    rw [hch] at this
    rw [this]
    cases s; simp_all
  · have hs' : (s.a == 0) = false := by rw [hs]; decide
    simp only [hb, Bool.false_eq_true, if_false, hs, hch, hm]
    have hba := ch_mulUn8 (ch b.a) 255 (ch_nonneg _) (ch_le _) (by omega) (by omega)
    rw [hba, mulUn8I_255 _ (ch_nonneg _) (ch_le _)]
    have hra : (255 : Int) + ch b.a - ch b.a = 255 := by omega
    rw [hra]
    have hne : ((255 : Int) == 0) = false := by decide
    simp only [hne, Bool.false_eq_true, if_false]
    have hc : ∀ x y : Int, x + Int.tdiv ((y - x) * 255) 255 = y := by
      intro x y
      rw [Int.mul_tdiv_cancel _ (by decide)]
      omega
    rw [hc, hc, hc]
    have := fromRgbaI32_bytes m s.r s.g s.b 255
    rw [hch] at this
    rw [this]
    cases s; simp_all

theorem divUn8_ok (a b : Int) (hb : b ≠ 0) : ∃ r, divUn8 a b = .ok r := by
  have : (b == 0) = false := by simpa using hb
  refine ⟨asU8 (Int.tdiv (a * 255 + Int.tdiv b 2) b), ?_⟩
  simp [divUn8, this]

/-- the channel functions of the separable integer modes never fail -/
theorem chan_total (b s : Int) (hb0 : 0 ≤ b) (hb255 : b ≤ 255) (_hs0 : 0 ≤ s) (_hs255 : s ≤ 255) :
    ∀ f, f ∈ [chMultiply, chScreen, chOverlay, chDarken, chLighten, chColorDodge, chColorBurn,
      chHardLight, chDifference, chExclusion, chDivide] → ∃ r, f b s = .ok r := by
  intro f hf
  simp only [List.mem_cons, List.mem_nil_iff, or_false] at hf
  rcases hf with rfl | rfl | rfl | rfl | rfl | rfl | rfl | rfl | rfl | rfl | rfl
  · exact ⟨_, rfl⟩
  · exact ⟨_, rfl⟩
  · unfold chOverlay chHardLight; split <;> exact ⟨_, rfl⟩
  · exact ⟨_, rfl⟩
  · exact ⟨_, rfl⟩
  · unfold chColorDodge
    by_cases h0 : b == 0
    · simp [h0]
    · simp only [h0, Bool.false_eq_true, if_false]
      by_cases h1 : b ≥ 255 - s
      · simp [h1]
      · simp only [h1, if_false]
        have hb0 : b ≠ 0 := by simpa using h0
        exact divUn8_ok _ _ (by omega)
  · unfold chColorBurn
    by_cases h0 : b == 255
    · simp [h0]
    · simp only [h0, Bool.false_eq_true, if_false]
      by_cases h1 : 255 - b ≥ s
      · simp [h1]
      · simp only [h1, if_false]
        obtain ⟨r, hr⟩ := divUn8_ok (255 - b) s (by
          have hb0 : b ≠ 255 := by simpa using h0
          omega)
        exact ⟨_, by rw [hr]; rfl⟩
  · unfold chHardLight; split <;> exact ⟨_, rfl⟩
  · exact ⟨_, rfl⟩
  · exact ⟨_, rfl⟩
  · unfold chDivide
    by_cases h0 : b == 0
    · simp [h0]
    · simp only [h0, Bool.false_eq_true, if_false]
      by_cases h1 : b ≥ s
      · simp [h1]
      · simp only [h1, if_false]
        have hb0 : b ≠ 0 := by simpa using h0
        exact divUn8_ok _ _ (by omega)

/-- modes whose arithmetic is integer only -/
def intMode (mode : Nat) : Bool := mode ≤ 18 && !(mode == 9 || (12 ≤ mode && mode ≤ 15))

/-- **C17 (e)**, integer modes: compositing never fails — no division by zero, no overflow
    check and no range `debug_assert!` can fire — for the 14 integer modes, every backdrop,
    source and opacity, in either build profile. -/
theorem int_modes_total {F : Type} (ops : FOps F) (m : Profile) (mode : Nat) (hm : intMode mode = true)
    (b s : RGBA) (o : UInt8) : ∃ r, blend ops m mode b s o = .ok r := by
  have chanT : ∀ f, f ∈ [chMultiply, chScreen, chOverlay, chDarken, chLighten, chColorDodge,
      chColorBurn, chHardLight, chDifference, chExclusion, chDivide] →
      ∃ r, blendChannel m f b s o = .ok r := by
    intro f hf
    obtain ⟨r1, h1⟩ := chan_total (ch b.r) (ch s.r) (ch_nonneg _) (ch_le _) (ch_nonneg _) (ch_le _) f hf
    obtain ⟨r2, h2⟩ := chan_total (ch b.g) (ch s.g) (ch_nonneg _) (ch_le _) (ch_nonneg _) (ch_le _) f hf
    obtain ⟨r3, h3⟩ := chan_total (ch b.b) (ch s.b) (ch_nonneg _) (ch_le _) (ch_nonneg _) (ch_le _) f hf
    obtain ⟨r, hr⟩ := normal_total m b ⟨r1, r2, r3, s.a⟩ o
    exact ⟨r, by simp [blendChannel, h1, h2, h3, hr]⟩
  have baseT : ∃ bl, mode = 0 ∨ baseline ops m mode b s o = .ok bl := by
    simp only [intMode] at hm
    have hcases : mode = 0 ∨ mode = 1 ∨ mode = 2 ∨ mode = 3 ∨ mode = 4 ∨ mode = 5 ∨ mode = 6 ∨
        mode = 7 ∨ mode = 8 ∨ mode = 10 ∨ mode = 11 ∨ mode = 16 ∨ mode = 17 ∨ mode = 18 := by
      simp at hm; omega
    rcases hcases with h | h | h | h | h | h | h | h | h | h | h | h | h | h
    · exact ⟨default, .inl h⟩
    · subst h; obtain ⟨r, hr⟩ := chanT chMultiply (by simp); exact ⟨r, .inr hr⟩
    · subst h; obtain ⟨r, hr⟩ := chanT chScreen (by simp); exact ⟨r, .inr hr⟩
    · subst h; obtain ⟨r, hr⟩ := chanT chOverlay (by simp); exact ⟨r, .inr hr⟩
    · subst h; obtain ⟨r, hr⟩ := chanT chDarken (by simp); exact ⟨r, .inr hr⟩
    · subst h; obtain ⟨r, hr⟩ := chanT chLighten (by simp); exact ⟨r, .inr hr⟩
    · subst h; obtain ⟨r, hr⟩ := chanT chColorDodge (by simp); exact ⟨r, .inr hr⟩
    · subst h; obtain ⟨r, hr⟩ := chanT chColorBurn (by simp); exact ⟨r, .inr hr⟩
    · subst h; obtain ⟨r, hr⟩ := chanT chHardLight (by simp); exact ⟨r, .inr hr⟩
    · subst h; obtain ⟨r, hr⟩ := chanT chDifference (by simp); exact ⟨r, .inr hr⟩
    · subst h; obtain ⟨r, hr⟩ := chanT chExclusion (by simp); exact ⟨r, .inr hr⟩
    · subst h
      -- addition
      have hf := fromRgbaI32_inRange m (min (ch b.r + ch s.r) 255) (min (ch b.g + ch s.g) 255)
        (min (ch b.b + ch s.b) 255) (ch s.a)
        (by have := ch_nonneg b.r; have := ch_nonneg s.r; omega)
        (by have := ch_nonneg b.g; have := ch_nonneg s.g; omega)
        (by have := ch_nonneg b.b; have := ch_nonneg s.b; omega)
        ⟨ch_nonneg _, ch_le _⟩
      obtain ⟨r, hr⟩ := normal_total m b _ o
      exact ⟨r, .inr (by simp only [baseline, additionBase, hf, Res.bind_ok]; exact hr)⟩
    · subst h
      -- subtract
      have hf := fromRgbaI32_inRange m (max (ch b.r - ch s.r) 0) (max (ch b.g - ch s.g) 0)
        (max (ch b.b - ch s.b) 0) (ch s.a)
        (by have := ch_le b.r; have := ch_nonneg s.r; omega)
        (by have := ch_le b.g; have := ch_nonneg s.g; omega)
        (by have := ch_le b.b; have := ch_nonneg s.b; omega)
        ⟨ch_nonneg _, ch_le _⟩
      obtain ⟨r, hr⟩ := normal_total m b _ o
      exact ⟨r, .inr (by simp only [baseline, subtractBase, hf, Res.bind_ok]; exact hr)⟩
    · subst h; obtain ⟨r, hr⟩ := chanT chDivide (by simp); exact ⟨r, .inr hr⟩
  obtain ⟨rn, hn⟩ := normal_total m b s o
  obtain ⟨bl, hbl⟩ := baseT
  unfold blend
  by_cases h0 : mode == 0
  · simp only [h0, if_true]; exact ⟨rn, hn⟩
  · simp only [h0, Bool.false_eq_true, if_false]
    have hbl' : baseline ops m mode b s o = .ok bl := by
      rcases hbl with h | h
      · simp [h] at h0
      · exact h
    unfold blender
    split
    · exact ⟨merge (merge rn bl b.a) bl (mulUn8 (ch b.a) (ch (mulUn8 (ch s.a) (ch o)))),
        by simp [hn, hbl']⟩
    · exact ⟨rn, hn⟩

end Ase.Proofs.C17
