import AseProofs.Props.C17
import AseProofs.Lemmas.ExactFloat
/-!
  # C17 (e), floating-point modes, EXACT arithmetic

  "No channel computation overflows or leaves 0..255: no overflow check or debug assertion
  fires" — for the five floating-point blend modes (9 soft light, 12 hue, 13 saturation,
  14 color, 15 luminosity), with the floating-point parameter `FOps F` instantiated by the exact
  rational instance `exactOps sqrt : FOps ℚ` of `AseProofs/Lemmas/ExactFloat.lean`, for every
  `sqrt` with `0 ≤ x ≤ 1 → x ≤ sqrt x ≤ 1` (`SqrtOk`).

  **These theorems are about exact arithmetic only.**  They show that the *formulas* of
  `src/blend.rs` (including the bug-compatible `clip_color`, which reuses `lum`/`min`/`max`
  computed before the first clipping step, and the bug-compatible `static_sort3_orig`, whose
  MIN/MID/MAX indices may coincide) keep every channel inside `[0,1]`, hence every converted
  channel inside `0..255`, so that no range `debug_assert!` of `from_rgba_i32` fires.  The gap to
  IEEE-754 binary64 — every operation rounds, and the accumulated error of a few ulp has to be
  compared with the margins (`-1 < c*255 < 256` for the truncating cast, `r*255 + 0.5 < 256`
  for soft light) — is NOT covered here.
-/
namespace Ase.Proofs.C17
open Ase Ase.Blend Ase.Proofs

variable (q : ℚ → ℚ)

/-- all three channels lie in the unit interval -/
def Unit3 (c : ℚ × ℚ × ℚ) : Prop :=
  (0 ≤ c.1 ∧ c.1 ≤ 1) ∧ (0 ≤ c.2.1 ∧ c.2.1 ≤ 1) ∧ (0 ≤ c.2.2 ∧ c.2.2 ≤ 1)

/-! ### the model functions at `exactOps`, in closed form -/

theorem luminosity_eq (c : ℚ × ℚ × ℚ) : luminosity (exactOps q) c = lumQ c.1 c.2.1 c.2.2 := by
  simp [luminosity, lumQ]

theorem saturation_eq (c : ℚ × ℚ × ℚ) :
    saturation (exactOps q) c = max c.1 (max c.2.1 c.2.2) - min c.1 (min c.2.1 c.2.2) := by
  simp [saturation]

theorem asRgbF_eq (c : RGBA) :
    asRgbF (exactOps q) c =
      (((ch c.r : Int) : ℚ) / 255, ((ch c.g : Int) : ℚ) / 255, ((ch c.b : Int) : ℚ) / 255) := by
  simp [asRgbF]

theorem clipColor_eq (c : ℚ × ℚ × ℚ) :
    clipColor (exactOps q) c =
      (clip1 (lumQ c.1 c.2.1 c.2.2) (min c.1 (min c.2.1 c.2.2)) (max c.1 (max c.2.1 c.2.2)) c.1,
       clip1 (lumQ c.1 c.2.1 c.2.2) (min c.1 (min c.2.1 c.2.2)) (max c.1 (max c.2.1 c.2.2)) c.2.1,
       clip1 (lumQ c.1 c.2.1 c.2.2) (min c.1 (min c.2.1 c.2.2)) (max c.1 (max c.2.1 c.2.2))
         c.2.2) := by
  simp only [clipColor, luminosity_eq, clip1, exactOps_add, exactOps_sub, exactOps_mul,
    exactOps_div, exactOps_min, exactOps_max, exactOps_lt, exactOps_ofInt, decide_eq_true_eq,
    Int.cast_zero, Int.cast_one]
  split_ifs <;> rfl

theorem softLightCh_eq (b s : Int) :
    softLightCh (exactOps q) b s =
      (exactToU32 (softLightQ q ((b : ℚ) / 255) ((s : ℚ) / 255) * 255 + 1 / 2) : Int) := by
  simp only [softLightCh, softLightQ, exactOps_add, exactOps_sub, exactOps_mul, exactOps_div,
    exactOps_le, exactOps_ofInt, exactOps_sqrt, exactOps_toU32, exactOps_c0_25, exactOps_c0_5,
    decide_eq_true_eq, Int.cast_ofNat, Int.cast_one]

/-! ### 1. luminosity and saturation -/

theorem asRgbF_range (c : RGBA) : Unit3 (asRgbF (exactOps q) c) := by
  rw [asRgbF_eq]
  exact ⟨byte_unit _, byte_unit _, byte_unit _⟩

/-- for channels in `[0,1]` the luminosity is in `[0,1]` (the weights sum to 1) -/
theorem luminosity_range (c : ℚ × ℚ × ℚ) (h : Unit3 c) :
    0 ≤ luminosity (exactOps q) c ∧ luminosity (exactOps q) c ≤ 1 := by
  rw [luminosity_eq]
  exact lumQ_range h.1.1 h.1.2 h.2.1.1 h.2.1.2 h.2.2.1 h.2.2.2

/-- for channels in `[0,1]` the "saturation" `max − min` is in `[0,1]` -/
theorem saturation_range (c : ℚ × ℚ × ℚ) (h : Unit3 c) :
    0 ≤ saturation (exactOps q) c ∧ saturation (exactOps q) c ≤ 1 := by
  rw [saturation_eq]
  exact satQ_range h.1.1 h.1.2 h.2.1.1 h.2.1.2 h.2.2.1 h.2.2.2

/-! ### 2. `clip_color` and `set_luminosity` -/

/-- The bug-compatible `clip_color` (which reuses `lum`, `min`, `max` of its ARGUMENT in the
    second step instead of recomputing them after the first) still maps every colour whose
    luminosity is in `[0,1]` into the unit cube — no hypothesis on the channels themselves.
    (The stale `max` only makes the second scaling factor smaller than necessary.) -/
theorem clipColor_range (c : ℚ × ℚ × ℚ)
    (hl : 0 ≤ luminosity (exactOps q) c ∧ luminosity (exactOps q) c ≤ 1) :
    Unit3 (clipColor (exactOps q) c) := by
  rw [luminosity_eq] at hl
  rw [clipColor_eq]
  obtain ⟨r, g, b⟩ := c
  have hb := lumQ_between r g b
  have h1 : min r (min g b) ≤ r := min_le_left _ _
  have h2 : min r (min g b) ≤ g := le_trans (min_le_right _ _) (min_le_left _ _)
  have h3 : min r (min g b) ≤ b := le_trans (min_le_right _ _) (min_le_right _ _)
  have h4 : r ≤ max r (max g b) := le_max_left _ _
  have h5 : g ≤ max r (max g b) := le_trans (le_max_left _ _) (le_max_right _ _)
  have h6 : b ≤ max r (max g b) := le_trans (le_max_right _ _) (le_max_right _ _)
  exact ⟨clip1_range hl.1 hl.2 hb.2 h1 h4, clip1_range hl.1 hl.2 hb.2 h2 h5,
    clip1_range hl.1 hl.2 hb.2 h3 h6⟩

/-- `set_luminosity(c, lum)` has luminosity exactly `lum` before clipping -/
theorem setLuminosity_eq (c : ℚ × ℚ × ℚ) (lum : ℚ) :
    setLuminosity (exactOps q) c lum =
      clipColor (exactOps q)
        (c.1 + (lum - lumQ c.1 c.2.1 c.2.2), c.2.1 + (lum - lumQ c.1 c.2.1 c.2.2),
         c.2.2 + (lum - lumQ c.1 c.2.1 c.2.2)) := by
  simp [setLuminosity, luminosity_eq]

/-- every channel of `set_luminosity(c, lum)` is in `[0,1]` whenever `lum ∈ [0,1]`, for EVERY
    colour `c` -/
theorem setLuminosity_range (c : ℚ × ℚ × ℚ) (lum : ℚ) (h : 0 ≤ lum ∧ lum ≤ 1) :
    Unit3 (setLuminosity (exactOps q) c lum) := by
  rw [setLuminosity_eq]
  apply clipColor_range
  rw [luminosity_eq]
  simp only [lumQ_shift]
  constructor <;> linarith [h.1, h.2]

/-! ### 3. `static_sort3_orig` and `set_saturation` -/

/-- the MIN/MID/MAX macros select a minimal, a median and a maximal VALUE (the indices may
    coincide: e.g. `r == g < b` gives MIN = MID = 1, and `r == g == b` gives MIN = MAX = 2) -/
theorem sort_spec (c : ℚ × ℚ × ℚ) :
    getC c (staticSort3Orig (exactOps q) c.1 c.2.1 c.2.2).1 ≤
        getC c (staticSort3Orig (exactOps q) c.1 c.2.1 c.2.2).2.1 ∧
      getC c (staticSort3Orig (exactOps q) c.1 c.2.1 c.2.2).2.1 ≤
        getC c (staticSort3Orig (exactOps q) c.1 c.2.1 c.2.2).2.2 := by
  obtain ⟨r, g, b⟩ := c
  simp only [staticSort3Orig, exactOps_lt, exactOps_min, exactOps_max, decide_eq_true_eq,
    lt_min_iff, max_lt_iff]
  split_ifs <;> simp only [getC] <;> constructor <;> linarith

/-- the aliasing quirk, concretely: `r == g < b` -/
theorem sort_alias_example :
    staticSort3Orig (exactOps q) (1 / 2) (1 / 2) 1 = (1, 1, 2) := by
  simp only [staticSort3Orig, exactOps_lt, exactOps_min, exactOps_max, decide_eq_true_eq]
  norm_num

/-- channel-wise bound used for `set_saturation`: `0 ≤ x_i ≤ max sat c_i` -/
def SatBound (sat : ℚ) (c x : ℚ × ℚ × ℚ) : Prop :=
  (0 ≤ x.1 ∧ x.1 ≤ max sat c.1) ∧ (0 ≤ x.2.1 ∧ x.2.1 ≤ max sat c.2.1) ∧
    (0 ≤ x.2.2 ∧ x.2.2 ≤ max sat c.2.2)

theorem SatBound.setC {sat : ℚ} {c x : ℚ × ℚ × ℚ} (h : SatBound sat c x) (i : Nat) {v : ℚ}
    (hv0 : 0 ≤ v) (hv1 : v ≤ sat) : SatBound sat c (setC x i v) := by
  obtain ⟨h1, h2, h3⟩ := h
  match i with
  | 0 => exact ⟨⟨hv0, le_trans hv1 (le_max_left _ _)⟩, h2, h3⟩
  | 1 => exact ⟨h1, ⟨hv0, le_trans hv1 (le_max_left _ _)⟩, h3⟩
  | _ + 2 => exact ⟨h1, h2, ⟨hv0, le_trans hv1 (le_max_left _ _)⟩⟩

/-- `set_saturation(c, sat)` for non-negative channels and `sat ≥ 0`: every result channel `i`
    is in `[0, max(sat, c_i)]`.  The `max` with the ORIGINAL channel is necessary because of the
    index aliasing of `static_sort3_orig`: a channel that is none of MIN/MID/MAX is left
    untouched (`setSaturation_not_le_sat`). -/
theorem setSaturation_range (c : ℚ × ℚ × ℚ) (sat : ℚ)
    (hc : 0 ≤ c.1 ∧ 0 ≤ c.2.1 ∧ 0 ≤ c.2.2) (hs : 0 ≤ sat) :
    SatBound sat c (setSaturation (exactOps q) c sat) := by
  have h0 : SatBound sat c c :=
    ⟨⟨hc.1, le_max_right _ _⟩, ⟨hc.2.1, le_max_right _ _⟩, ⟨hc.2.2, le_max_right _ _⟩⟩
  have hsort := sort_spec q c
  simp only [setSaturation, exactOps_lt, exactOps_sub, exactOps_mul, exactOps_div,
    exactOps_ofInt, decide_eq_true_eq, Int.cast_zero]
  generalize staticSort3Orig (exactOps q) c.1 c.2.1 c.2.2 = s at hsort
  obtain ⟨mn, md, mx⟩ := s
  simp only at hsort ⊢
  split_ifs with hlt
  · have hm := mid_range hsort.1 hsort.2 hlt hs
    exact ((h0.setC md hm.1 hm.2).setC mx hs le_rfl).setC mn le_rfl hs
  · exact ((h0.setC md le_rfl hs).setC mx le_rfl hs).setC mn le_rfl hs

/-- in particular the unit cube is preserved for `sat ∈ [0,1]` -/
theorem setSaturation_unit (c : ℚ × ℚ × ℚ) (sat : ℚ) (hc : Unit3 c) (hs : 0 ≤ sat ∧ sat ≤ 1) :
    Unit3 (setSaturation (exactOps q) c sat) := by
  have h := setSaturation_range q c sat ⟨hc.1.1, hc.2.1.1, hc.2.2.1⟩ hs.1
  exact ⟨⟨h.1.1, le_trans h.1.2 (max_le hs.2 hc.1.2)⟩,
    ⟨h.2.1.1, le_trans h.2.1.2 (max_le hs.2 hc.2.1.2)⟩,
    ⟨h.2.2.1, le_trans h.2.2.2 (max_le hs.2 hc.2.2.2)⟩⟩

/-- counterexample to the naive bound "all result channels are in `[0, sat]`": with
    `r == g < b` the red channel is none of MIN/MID/MAX and keeps its value `1/2 > sat = 1/10` -/
theorem setSaturation_not_le_sat :
    setSaturation (exactOps q) (1 / 2, 1 / 2, 1) (1 / 10) = (1 / 2, 0, 1 / 10) := by
  simp only [setSaturation, sort_alias_example, getC, setC, exactOps_lt, exactOps_sub,
    exactOps_mul, exactOps_div, exactOps_ofInt, decide_eq_true_eq, Int.cast_zero]
  norm_num

/-- and a grey colour keeps its red channel: `set_saturation((x,x,x), sat) = (x,0,0)` -/
theorem setSaturation_grey (x sat : ℚ) :
    setSaturation (exactOps q) (x, x, x) sat = (x, 0, 0) := by
  simp [setSaturation, staticSort3Orig, getC, setC]

/-- for pairwise distinct channels the quirk does not trigger: MIN/MID/MAX is a permutation -/
theorem sort_perm (r g b : ℚ) (h1 : r ≠ g) (h2 : r ≠ b) (h3 : g ≠ b) :
    staticSort3Orig (exactOps q) r g b ∈
      [(0, 1, 2), (0, 2, 1), (1, 0, 2), (1, 2, 0), (2, 0, 1), (2, 1, 0)] := by
  simp only [staticSort3Orig, exactOps_lt, exactOps_min, exactOps_max, decide_eq_true_eq,
    lt_min_iff, max_lt_iff]
  rcases lt_or_gt_of_ne h1 with a | a <;> rcases lt_or_gt_of_ne h2 with b' | b' <;>
    rcases lt_or_gt_of_ne h3 with c | c <;>
    first
      | (exfalso; linarith)
      | simp [a, b', c, a.not_gt, b'.not_gt, c.not_gt]

/-- without the aliasing quirk (pairwise distinct channels) every result channel of
    `set_saturation(c, sat)` is in `[0, sat]` — for ANY channels, `sat ≥ 0` -/
theorem setSaturation_range_distinct (c : ℚ × ℚ × ℚ) (sat : ℚ)
    (hd : c.1 ≠ c.2.1 ∧ c.1 ≠ c.2.2 ∧ c.2.1 ≠ c.2.2) (hs : 0 ≤ sat) :
    (0 ≤ (setSaturation (exactOps q) c sat).1 ∧ (setSaturation (exactOps q) c sat).1 ≤ sat) ∧
    (0 ≤ (setSaturation (exactOps q) c sat).2.1 ∧
      (setSaturation (exactOps q) c sat).2.1 ≤ sat) ∧
    (0 ≤ (setSaturation (exactOps q) c sat).2.2 ∧
      (setSaturation (exactOps q) c sat).2.2 ≤ sat) := by
  have hsort := sort_spec q c
  have hperm := sort_perm q c.1 c.2.1 c.2.2 hd.1 hd.2.1 hd.2.2
  simp only [setSaturation, exactOps_lt, exactOps_sub, exactOps_mul, exactOps_div,
    exactOps_ofInt, decide_eq_true_eq, Int.cast_zero]
  generalize staticSort3Orig (exactOps q) c.1 c.2.1 c.2.2 = s at hsort hperm
  simp only [List.mem_cons, List.mem_nil_iff, or_false] at hperm
  rcases hperm with rfl | rfl | rfl | rfl | rfl | rfl
  all_goals
    simp only at hsort ⊢
    split_ifs with hlt
    · have hm := mid_range hsort.1 hsort.2 hlt hs
      simp only [setC]
      refine ⟨?_, ?_, ?_⟩ <;> first | exact ⟨le_rfl, hs⟩ | exact hm | exact ⟨hs, le_rfl⟩
    · simp only [setC]
      exact ⟨⟨le_rfl, hs⟩, ⟨le_rfl, hs⟩, ⟨le_rfl, hs⟩⟩

/-! ### 4. soft light -/

theorem softLight_range (hq : SqrtOk q) (b s : Int) (hb : 0 ≤ b ∧ b ≤ 255)
    (hs : 0 ≤ s ∧ s ≤ 255) :
    0 ≤ softLightCh (exactOps q) b s ∧ softLightCh (exactOps q) b s ≤ 255 := by
  rw [softLightCh_eq]
  have cast_unit : ∀ x : Int, 0 ≤ x → x ≤ 255 → 0 ≤ (x : ℚ) / 255 ∧ (x : ℚ) / 255 ≤ 1 := by
    intro x h0 h1
    have h0' : (0 : ℚ) ≤ x := by exact_mod_cast h0
    have h1' : (x : ℚ) ≤ 255 := by exact_mod_cast h1
    exact ⟨by positivity, by rw [div_le_one (by norm_num)]; exact h1'⟩
  have hbq := cast_unit b hb.1 hb.2
  have hsq := cast_unit s hs.1 hs.2
  have hr := softLightQ_range hq hbq.1 hbq.2 hsq.1 hsq.2
  exact exactToU32_byte (by linarith [hr.1]) (by linarith [hr.2])

/-! ### 5. no assertion fires: the floating-point modes are total -/

theorem fromRgbF_ok (m : Profile) (c : ℚ × ℚ × ℚ) (a : UInt8) (hc : Unit3 c) :
    ∃ x, fromRgbF (exactOps q) m c a = .ok x := by
  have conv : ∀ v : ℚ, 0 ≤ v → v ≤ 1 →
      0 ≤ exactToI32 (v * ((255 : Int) : ℚ)) ∧ exactToI32 (v * ((255 : Int) : ℚ)) ≤ 255 := by
    intro v h0 h1
    have e : ((255 : Int) : ℚ) = 255 := by norm_num
    rw [e]
    exact exactToI32_byte (by positivity) (by linarith)
  exact ⟨_, fromRgbaI32_inRange m _ _ _ _ (conv _ hc.1.1 hc.1.2) (conv _ hc.2.1.1 hc.2.1.2)
    (conv _ hc.2.2.1 hc.2.2.2) ⟨ch_nonneg _, ch_le _⟩⟩

/-- the five floating-point baseline functions never fail in exact arithmetic -/
theorem float_baseline_total_exact (hq : SqrtOk q) (m : Profile) (mode : Nat)
    (hm : mode = 9 ∨ mode = 12 ∨ mode = 13 ∨ mode = 14 ∨ mode = 15) (b s : RGBA) (o : UInt8) :
    ∃ r, baseline (exactOps q) m mode b s o = .ok r := by
  have viaRgb : ∀ c : ℚ × ℚ × ℚ, Unit3 c →
      ∃ r, (fromRgbF (exactOps q) m c s.a >>= fun s' => normal m b s' o) = .ok r := by
    intro c hc
    obtain ⟨x, hx⟩ := fromRgbF_ok q m c s.a hc
    obtain ⟨r, hr⟩ := normal_total m b x o
    exact ⟨r, by rw [hx]; exact hr⟩
  rcases hm with h | h | h | h | h <;> subst h
  · -- soft light
    have hf := fromRgbaI32_inRange m _ _ _ _
      (softLight_range q hq (ch b.r) (ch s.r) ⟨ch_nonneg _, ch_le _⟩ ⟨ch_nonneg _, ch_le _⟩)
      (softLight_range q hq (ch b.g) (ch s.g) ⟨ch_nonneg _, ch_le _⟩ ⟨ch_nonneg _, ch_le _⟩)
      (softLight_range q hq (ch b.b) (ch s.b) ⟨ch_nonneg _, ch_le _⟩ ⟨ch_nonneg _, ch_le _⟩)
      (⟨ch_nonneg s.a, ch_le s.a⟩)
    obtain ⟨r, hr⟩ := normal_total m b _ o
    exact ⟨r, by simp only [baseline, softLightBase, hf, Res.bind_ok]; exact hr⟩
  · -- hue
    exact viaRgb _ (setLuminosity_range q _ _ (luminosity_range q _ (asRgbF_range q b)))
  · -- saturation
    exact viaRgb _ (setLuminosity_range q _ _ (luminosity_range q _ (asRgbF_range q b)))
  · -- color
    exact viaRgb _ (setLuminosity_range q _ _ (luminosity_range q _ (asRgbF_range q b)))
  · -- luminosity
    exact viaRgb _ (setLuminosity_range q _ _ (luminosity_range q _ (asRgbF_range q s)))

/-- a mode whose baseline function succeeds never fails (the `blender` wrapper only adds
    `normal` and `merge`, which are total) -/
theorem blend_total_of_baseline {F : Type} (ops : FOps F) (m : Profile) (mode : Nat)
    (b s : RGBA) (o : UInt8) (h : ∃ bl, baseline ops m mode b s o = .ok bl) :
    ∃ r, blend ops m mode b s o = .ok r := by
  obtain ⟨rn, hn⟩ := normal_total m b s o
  obtain ⟨bl, hbl⟩ := h
  unfold blend
  by_cases h0 : mode == 0
  · simp only [h0, if_true]; exact ⟨rn, hn⟩
  · simp only [h0, Bool.false_eq_true, if_false]
    unfold blender
    split
    · exact ⟨merge (merge rn bl b.a) bl (mulUn8 (ch b.a) (ch (mulUn8 (ch s.a) (ch o)))),
        by simp [hn, hbl]⟩
    · exact ⟨rn, hn⟩

/-- **C17 (e), floating-point modes, exact arithmetic**: in either build profile, compositing
    with soft light / hue / saturation / color / luminosity never fails — in particular no range
    `debug_assert!` fires — when the floating-point operations are exact. -/
theorem float_modes_total_exact' (hq : SqrtOk q) (m : Profile) (mode : Nat)
    (hm : mode = 9 ∨ mode = 12 ∨ mode = 13 ∨ mode = 14 ∨ mode = 15) (b s : RGBA) (o : UInt8) :
    ∃ r, blend (exactOps q) m mode b s o = .ok r :=
  blend_total_of_baseline _ m mode b s o (float_baseline_total_exact q hq m mode hm b s o)

/-- the statement for the checked build profile (debug assertions and overflow checks on) -/
theorem float_modes_total_exact (hq : SqrtOk q) :
    ∀ mode ∈ [9, 12, 13, 14, 15], ∀ (b s : RGBA) (o : UInt8),
      ∃ r, blend (exactOps q) Profile.checked mode b s o = .ok r := by
  intro mode hm b s o
  simp only [List.mem_cons, List.mem_nil_iff, or_false] at hm
  exact float_modes_total_exact' q hq Profile.checked mode hm b s o

/-- all 19 modes, exact arithmetic, either profile -/
theorem all_modes_total_exact (hq : SqrtOk q) (m : Profile) (mode : Nat) (hmode : mode ≤ 18)
    (b s : RGBA) (o : UInt8) : ∃ r, blend (exactOps q) m mode b s o = .ok r := by
  by_cases hi : intMode mode = true
  · exact int_modes_total _ m mode hi b s o
  · have : mode = 9 ∨ mode = 12 ∨ mode = 13 ∨ mode = 14 ∨ mode = 15 := by
      simp [intMode] at hi
      omega
    exact float_modes_total_exact' q hq m mode this b s o

end Ase.Proofs.C17
