import AseProofs.Lemmas.WholeFile
import AseProofs.Lemmas.WholeFileStruct
/-
  C01  The decoded sprite structure equals what the file encodes — the whole-file theorem.

  `decode_encode`: for every well-formed chunk program `p` (every field arbitrary within the
  explicit side conditions `ProgramWF`), loading the bytes `Spec.encode p` gives exactly
  `Spec.semParse (headerSem p) (framesSem m p)`: the state machine of `Ase/Spec/Sem.lean` run
  over the *meanings* of the chunks, followed by validation.  The corollaries spell out what
  the loaded sprite then reports.
-/
namespace Ase.Proofs.C01
open Ase Ase.Proofs Ase.Proofs.WholeFile

/-- The side conditions of the whole-file theorem.  Everything is decidable for a concrete
    program except the inflate equations inside `ChunkWF` (compressed cels / tilemaps /
    tilesets: `inflate (z ++ pad) = .ok pixels`).  `p.trailer` is unconstrained. -/
def ProgramWF (inflate : Inflate) (p : Spec.Program) : Prop :=
  p.header.reserved.length = 84 ∧
  p.frames.length ≤ 65535 ∧
  pixelRatioOk p.header.pixelW p.header.pixelH = true ∧
  (p.header.depth.toNat = 8 ∨ p.header.depth.toNat = 16 ∨ p.header.depth.toNat = 32) ∧
  ∀ f ∈ p.frames, FrameWF inflate (Spec.formatOf p.header.depth p.header.tci) f

theorem parsePixelFormat_ok (depth : UInt16) (tci : UInt8)
    (h : depth.toNat = 8 ∨ depth.toNat = 16 ∨ depth.toNat = 32) :
    parsePixelFormat depth tci = .ok (Spec.formatOf depth tci) := by
  rcases h with h | h | h <;> simp [parsePixelFormat, Spec.formatOf, h]

/-- **C01, whole file**: loading the encoding of a well-formed program gives the semantic
    result — for every inflater satisfying the program's inflate equations, both build
    profiles, arbitrary trailing bytes. -/
theorem decode_encode (inflate : Inflate) (m : Profile) (p : Spec.Program)
    (hwf : ProgramWF inflate p) :
    parse inflate m (Spec.encode p) = Spec.semParse (Spec.headerSem p) (Spec.framesSem m p) := by
  obtain ⟨hres, hn, hratio, hdepth, hframes⟩ := hwf
  have hnum : (UInt16.ofNat p.frames.length).toNat = p.frames.length :=
    u16_ofNat_toNat _ (by omega)
  have hlen : (Spec.framesSem m p).length = p.frames.length := by
    simp [Spec.framesSem]
  have hpf := parseFrames_enc inflate m (Spec.formatOf p.header.depth p.header.tci) p.frames
    p.trailer 0 (ParseInfo.new p.frames.length p.header.speed) hframes
  have hindep := runFrames_new_indep (Spec.framesSem m p) p.header.speed
  rw [hlen] at hindep
  unfold parse parseFile Spec.encode
  rw [List.append_assoc, RdS.bind_ok (readHeader_roundtrip p.header p.frames.length _ hres)]
  simp only [hratio, Bool.not_true, Bool.false_eq_true, if_false, parsePixelFormat_ok _ _ hdepth,
    rd_lift_ok_bind, hnum]
  unfold Spec.semParse
  simp only [Spec.headerSem, hnum]
  change Res.map _ ((parseFrames bytesSrc inflate m _ p.frames.length 0 _ >>= _) _) = _
  have hfs : List.map (Spec.frameSem (Spec.formatOf p.header.depth p.header.tci) m) p.frames
      = Spec.framesSem m p := rfl
  rw [hfs, hindep] at hpf
  cases hr : Spec.runFrames 0 (ParseInfo.new p.frames.length 0) (Spec.framesSem m p) with
  | ok pi =>
      rw [hr] at hpf
      rw [RdS.bind_ok hpf]
      simp only [RdS.lift]
      rw [validate_congr
        ⟨UInt16.ofNat p.frames.length, p.header.width, p.header.height, p.header.depth,
          p.header.speed, p.header.tci, p.header.pixelW, p.header.pixelH⟩
        (Spec.SHeader.toHeader
          ⟨UInt16.ofNat p.frames.length, p.header.width, p.header.height,
            Spec.formatOf p.header.depth p.header.tci⟩) _ pi rfl rfl rfl]
      generalize validate _ _ pi = v
      cases v <;> rfl
  | err e => rw [hr] at hpf; rw [RdS.bind_err hpf]; rfl
  | panic s => rw [hr] at hpf; rw [RdS.bind_panic hpf]; rfl

/-! ### what the loaded sprite reports -/

theorem Res.bind_eq_ok {α β} {x : Res α} {f : α → Res β} {b : β} (h : (x >>= f) = .ok b) :
    ∃ a, x = .ok a ∧ f a = .ok b := by
  cases x with
  | ok a => exact ⟨a, rfl, h⟩
  | err e => cases h
  | panic s => cases h

/-- the fields of the sprite that validation copies from the header and the parser state -/
theorem validate_reports {h : Header} {fmt : PixelFormat} {pi : ParseInfo} {s : Sprite}
    (hv : validate h fmt pi = .ok s) :
    s.width = h.width ∧ s.height = h.height ∧ s.numFrames = h.numFrames ∧ s.format = fmt ∧
    s.palette = pi.palette ∧ s.layers = pi.layers ∧ s.frameTimes = pi.frameTimes ∧
    s.tags = pi.tags.getD #[] ∧ s.extFiles = pi.extFiles ∧
    s.spriteUserData = pi.spriteUserData ∧ s.slices = pi.slices := by
  unfold validate at hv
  obtain ⟨parents, _, hv⟩ := Res.bind_eq_ok hv
  obtain ⟨tilesets, _, hv⟩ := Res.bind_eq_ok hv
  split at hv
  · cases hv
  · obtain ⟨rows, _, hv⟩ := Res.bind_eq_ok hv
    cases hv
    exact ⟨rfl, rfl, rfl, rfl, rfl, rfl, rfl, rfl, rfl, rfl, rfl⟩

theorem semParse_ok {h : Spec.SHeader} {frames : List (UInt16 × List Spec.SItem)} {s : Sprite}
    (hs : Spec.semParse h frames = .ok s) :
    ∃ pi, Spec.runFrames 0 (ParseInfo.new h.numFrames.toNat 0) frames = .ok pi ∧
      validate h.toHeader h.format pi = .ok s := by
  unfold Spec.semParse at hs
  cases hr : Spec.runFrames 0 (ParseInfo.new h.numFrames.toNat 0) frames with
  | ok pi => rw [hr] at hs; exact ⟨pi, rfl, hs⟩
  | err e => rw [hr] at hs; cases hs
  | panic p => rw [hr] at hs; cases hs

/-- canvas size, frame count and pixel format are the header's -/
theorem sprite_header {h : Spec.SHeader} {frames : List (UInt16 × List Spec.SItem)} {s : Sprite}
    (hs : Spec.semParse h frames = .ok s) :
    s.width = h.width ∧ s.height = h.height ∧ s.numFrames = h.numFrames ∧ s.format = h.format := by
  obtain ⟨pi, _, hv⟩ := semParse_ok hs
  obtain ⟨h1, h2, h3, h4, _⟩ := validate_reports hv
  exact ⟨h1, h2, h3, h4⟩

/-- the frame times are the frame durations, in order (when the header's frame count is the
    number of frames, as in every encoded program) -/
theorem sprite_frameTimes {h : Spec.SHeader} {frames : List (UInt16 × List Spec.SItem)}
    {s : Sprite} (hs : Spec.semParse h frames = .ok s) (hn : h.numFrames.toNat = frames.length) :
    s.frameTimes = (frames.map (·.1)).toArray := by
  obtain ⟨pi, hr, hv⟩ := semParse_ok hs
  obtain ⟨_, _, _, _, _, _, h7, _⟩ := validate_reports hv
  rw [h7, runFrames_frameTimes frames 0 _ pi hr, hn]
  exact ftSet_replicate frames 0

/-- for an encoded program: the loaded sprite reports the header's canvas size and colour depth,
    the number of frames and each frame's duration -/
theorem loaded_header (inflate : Inflate) (m : Profile) (p : Spec.Program)
    (hwf : ProgramWF inflate p) (s : Sprite) (hs : parse inflate m (Spec.encode p) = .ok s) :
    s.width = p.header.width ∧ s.height = p.header.height ∧
    s.numFrames.toNat = p.frames.length ∧
    s.format = Spec.formatOf p.header.depth p.header.tci ∧
    s.frameTimes = (p.frames.map (·.duration)).toArray := by
  have hn : (UInt16.ofNat p.frames.length).toNat = p.frames.length :=
    u16_ofNat_toNat _ (by have := hwf.2.1; omega)
  rw [decode_encode inflate m p hwf] at hs
  obtain ⟨h1, h2, h3, h4⟩ := sprite_header hs
  have h5 := sprite_frameTimes hs (by simp [Spec.headerSem, Spec.framesSem, hn])
  refine ⟨h1, h2, by rw [h3]; exact hn, h4, ?_⟩
  rw [h5]
  simp [Spec.framesSem, Spec.frameSem]

/-- the layers are the layer items of all frames in file order; the state machine only adds
    user data to them -/
theorem sprite_layers {h : Spec.SHeader} {frames : List (UInt16 × List Spec.SItem)} {s : Sprite}
    (hs : Spec.semParse h frames = .ok s) :
    s.layers.toList.map stripL = (layerItems (allItems frames)).map stripL := by
  obtain ⟨pi, hr, hv⟩ := semParse_ok hs
  obtain ⟨_, _, _, _, _, h6, _⟩ := validate_reports hv
  have := (runFrames_keys frames hr).1
  rw [h6]
  simpa [keyL, ParseInfo.new] using this

/-- the slices are the slice items of all frames in file order (plus attached user data) -/
theorem sprite_slices {h : Spec.SHeader} {frames : List (UInt16 × List Spec.SItem)} {s : Sprite}
    (hs : Spec.semParse h frames = .ok s) :
    s.slices.toList.map stripS = (sliceItems (allItems frames)).map stripS := by
  obtain ⟨pi, hr, hv⟩ := semParse_ok hs
  obtain ⟨_, _, _, _, _, _, _, _, _, _, h11⟩ := validate_reports hv
  have := (runFrames_keys frames hr).2.1
  rw [h11]
  simpa [keyS, ParseInfo.new] using this

/-- the tags are those of the last tags item of the first frame (plus attached user data); tags
    items of later frames are ignored; without a tags item there are no tags -/
theorem sprite_tags {h : Spec.SHeader} {d : UInt16} {its : List Spec.SItem}
    {rest : List (UInt16 × List Spec.SItem)} {s : Sprite}
    (hs : Spec.semParse h ((d, its) :: rest) = .ok s) :
    s.tags.toList.map stripT = ((lastTags its).getD []).map stripT := by
  obtain ⟨pi, hr, hv⟩ := semParse_ok hs
  obtain ⟨_, _, _, _, _, _, _, h8, _⟩ := validate_reports hv
  have hk := (runFrames_keys _ hr).2.2
  have h0 : keyT (ParseInfo.new h.numFrames.toNat 0) = none := rfl
  rw [h0, tagsFrames_zero] at hk
  rw [h8]
  cases ht : pi.tags with
  | none =>
      simp only [keyT, ht, Option.map_none] at hk
      cases hl : lastTags its with
      | none => rfl
      | some ts => rw [hl] at hk; cases hk
  | some a =>
      simp only [keyT, ht, Option.map_some] at hk
      cases hl : lastTags its with
      | none => rw [hl] at hk; cases hk
      | some ts =>
          rw [hl] at hk
          simp only [Option.map_some, Option.some.injEq] at hk
          simpa using hk

/-- a file without frames has no tags -/
theorem sprite_tags_nil {h : Spec.SHeader} {s : Sprite} (hs : Spec.semParse h [] = .ok s) :
    s.tags = #[] := by
  obtain ⟨pi, hr, hv⟩ := semParse_ok hs
  obtain ⟨_, _, _, _, _, _, _, h8, _⟩ := validate_reports hv
  cases hr
  rw [h8]
  rfl

/-! ### … in terms of the program -/

/-- the layer chunks of a program, in file order, as the API reports them (without user data) -/
def programLayers (p : Spec.Program) : List LayerData :=
  (p.frames.flatMap (·.chunks)).filterMap (fun c => match c.item with
    | .layer l => some (Spec.layerOfSpec l)
    | _ => none)

def programSlices (p : Spec.Program) : List Slice :=
  (p.frames.flatMap (·.chunks)).filterMap (fun c => match c.item with
    | .slice sl => some (Spec.sliceOfSpec sl)
    | _ => none)

/-- the tag specs of the last tags chunk of a chunk list -/
def lastTagsSpec (cs : List Spec.ChunkSpec) : Option (List Spec.TagSpec) :=
  cs.foldl (fun acc c => match c.item with
    | .tags _ ts => some ts
    | _ => acc) none

def programTags (p : Spec.Program) : List Tag :=
  match p.frames with
  | [] => []
  | f :: _ => ((lastTagsSpec f.chunks).getD []).map Spec.tagOfSpec

theorem layerItems_sem (fmt : PixelFormat) (m : Profile) (cs : List Spec.ChunkSpec) :
    layerItems (cs.map (fun c => Spec.semItem fmt m c.item)) =
      cs.filterMap (fun c => match c.item with
        | .layer l => some (Spec.layerOfSpec l)
        | _ => none) := by
  induction cs with
  | nil => rfl
  | cons c t ih =>
      obtain ⟨item, pad⟩ := c
      rw [List.map_cons, layerItems_cons, ih]
      cases item <;> rfl

theorem sliceItems_sem (fmt : PixelFormat) (m : Profile) (cs : List Spec.ChunkSpec) :
    sliceItems (cs.map (fun c => Spec.semItem fmt m c.item)) =
      cs.filterMap (fun c => match c.item with
        | .slice sl => some (Spec.sliceOfSpec sl)
        | _ => none) := by
  induction cs with
  | nil => rfl
  | cons c t ih =>
      obtain ⟨item, pad⟩ := c
      rw [List.map_cons, sliceItems_cons, ih]
      cases item <;> rfl

theorem allItems_framesSem (fmt : PixelFormat) (m : Profile) (fs : List Spec.FrameSpec) :
    allItems (fs.map (Spec.frameSem fmt m)) =
      (fs.flatMap (·.chunks)).map (fun c => Spec.semItem fmt m c.item) := by
  induction fs with
  | nil => rfl
  | cons f t ih =>
      simp only [allItems] at ih
      simp only [allItems, List.map_cons, List.flatMap_cons, List.map_append, ih, Spec.frameSem]

theorem lastTags_sem (fmt : PixelFormat) (m : Profile) (cs : List Spec.ChunkSpec) :
    lastTags (cs.map (fun c => Spec.semItem fmt m c.item)) =
      (lastTagsSpec cs).map (·.map Spec.tagOfSpec) := by
  have gen : ∀ (a : Option (List Spec.TagSpec)),
      (cs.map (fun c => Spec.semItem fmt m c.item)).foldl (fun acc it => match it with
        | .tags ts => some ts
        | _ => acc) (a.map (·.map Spec.tagOfSpec)) =
      (cs.foldl (fun acc c => match c.item with
        | .tags _ ts => some ts
        | _ => acc) a).map (·.map Spec.tagOfSpec) := by
    induction cs with
    | nil => intro a; rfl
    | cons c t ih =>
        intro a
        obtain ⟨item, pad⟩ := c
        simp only [List.map_cons, List.foldl_cons]
        cases item <;> first | exact ih a | exact ih (some _)
  exact gen none

theorem stripL_layerOfSpec (l : Spec.LayerSpec) : stripL (Spec.layerOfSpec l) = Spec.layerOfSpec l :=
  rfl
theorem stripS_sliceOfSpec (sl : Spec.SliceSpec) : stripS (Spec.sliceOfSpec sl) = Spec.sliceOfSpec sl :=
  rfl
theorem stripT_tagOfSpec (t : Spec.TagSpec) : stripT (Spec.tagOfSpec t) = Spec.tagOfSpec t := rfl

/-- **layers of a loaded file**: up to attached user data, the layer chunks in file order, each
    with flags (low 7 bits), name, blend mode, opacity, type and child level as stored -/
theorem loaded_layers (inflate : Inflate) (m : Profile) (p : Spec.Program)
    (hwf : ProgramWF inflate p) (s : Sprite) (hs : parse inflate m (Spec.encode p) = .ok s) :
    s.layers.toList.map stripL = programLayers p := by
  rw [decode_encode inflate m p hwf] at hs
  rw [sprite_layers hs, Spec.framesSem, allItems_framesSem, layerItems_sem, programLayers,
    List.map_filterMap]
  congr 1
  funext c
  obtain ⟨item, pad⟩ := c
  cases item <;> rfl

/-- **slices of a loaded file**: up to attached user data, the slice chunks in file order -/
theorem loaded_slices (inflate : Inflate) (m : Profile) (p : Spec.Program)
    (hwf : ProgramWF inflate p) (s : Sprite) (hs : parse inflate m (Spec.encode p) = .ok s) :
    s.slices.toList.map stripS = programSlices p := by
  rw [decode_encode inflate m p hwf] at hs
  rw [sprite_slices hs, Spec.framesSem, allItems_framesSem, sliceItems_sem, programSlices,
    List.map_filterMap]
  congr 1
  funext c
  obtain ⟨item, pad⟩ := c
  cases item <;> rfl

/-- **tags of a loaded file**: up to attached user data, the tags of the last tags chunk of the
    first frame -/
theorem loaded_tags (inflate : Inflate) (m : Profile) (p : Spec.Program)
    (hwf : ProgramWF inflate p) (s : Sprite) (hs : parse inflate m (Spec.encode p) = .ok s) :
    s.tags.toList.map stripT = programTags p := by
  rw [decode_encode inflate m p hwf] at hs
  obtain ⟨hdr, frames, trailer⟩ := p
  cases frames with
  | nil => rw [sprite_tags_nil hs]; rfl
  | cons f t =>
      have hs' : Spec.semParse (Spec.headerSem ⟨hdr, f :: t, trailer⟩)
          ((f.duration, f.chunks.map (fun c => Spec.semItem (Spec.formatOf hdr.depth hdr.tci) m c.item))
            :: t.map (Spec.frameSem (Spec.formatOf hdr.depth hdr.tci) m)) = .ok s := hs
      rw [sprite_tags hs', lastTags_sem]
      show _ = ((lastTagsSpec f.chunks).getD []).map Spec.tagOfSpec
      cases lastTagsSpec f.chunks with
      | none => rfl
      | some ts =>
          simp only [Option.map_some, Option.getD_some, List.map_map]
          apply List.map_congr_left
          intro t _
          rfl

/-! ### non-vacuity -/

/-- one frame, one layer, one 1×1 raw RGBA cel, a few trailing bytes -/
def tinyProgram : Spec.Program :=
  { header := { fileSize := 0, width := 1, height := 1, depth := 32, flags := 1, speed := 100,
                ph1 := 0, ph2 := 0, tci := 0, ign1 := 0, ign2 := 0, numColors := 0,
                pixelW := 1, pixelH := 1, gridX := 0, gridY := 0, gridW := 16, gridH := 16,
                reserved := zeros 84 },
    frames := [{ duration := 100, oldCountOnly := false, oldField := 2, ph := 0, slack := 0,
                 chunks := [
                   ⟨.layer ⟨3, 0, 0, 0, 0, 0, 255, 0, 0, [76, 49], 0⟩, []⟩,
                   ⟨.cel ⟨0, 0, 0, 255, zeros 7, .image 1 1 [10, 20, 30, 255] none⟩, [7]⟩] }],
    trailer := [1, 2, 3] }

theorem tinyProgram_wf (inflate : Inflate) : ProgramWF inflate tinyProgram := by
  refine ⟨by decide, by decide, by decide, by decide, ?_⟩
  intro f hf
  simp only [tinyProgram, List.mem_singleton] at hf
  subst hf
  refine ⟨by decide, by decide, ?_⟩
  intro c hc
  simp only [List.mem_cons, List.not_mem_nil, or_false] at hc
  rcases hc with rfl | rfl
  · exact ⟨by decide, by decide, by decide, by decide, by decide⟩
  · exact ⟨by decide, by decide, rfl⟩

/-- … so the theorem applies to it, for every inflater and build profile -/
example (inflate : Inflate) (m : Profile) :
    parse inflate m (Spec.encode tinyProgram) =
      Spec.semParse (Spec.headerSem tinyProgram) (Spec.framesSem m tinyProgram) :=
  decode_encode inflate m tinyProgram (tinyProgram_wf inflate)

theorem tinyProgram_sem_ok :
    (Spec.semParse (Spec.headerSem tinyProgram)
      (Spec.framesSem Profile.release tinyProgram)).isOk = true := by
  decide +kernel

/-- … and it loads successfully (the theorem is not only about error results) -/
theorem tinyProgram_loads (inflate : Inflate) (m : Profile) :
    (parse inflate m (Spec.encode tinyProgram)).isOk = true := by
  rw [decode_encode inflate m tinyProgram (tinyProgram_wf inflate)]
  exact tinyProgram_sem_ok

end Ase.Proofs.C01
