import AseProofs.Props.C17
import Ase.Chunks
import Mathlib.Tactic.IntervalCases
/-
  C03  Blend modes reproduce Aseprite's blend arithmetic bit for bit.

  `Ase.Spec.BlendRef` is the transcription of Aseprite's C++; `Ase.Blend` is the model of
  `src/blend.rs`.  The theorem: for every mode, backdrop, source and opacity the Rust model
  returns exactly the reference pixel.
-/
namespace Ase.Proofs.C03
open Ase Ase.Blend Ase.Proofs Ase.Proofs.C17
open Ase.Spec (BlendRef.geti BlendRef.u8 BlendRef.MUL_UN8 BlendRef.DIV_UN8 BlendRef.rgba)

/-- the laws of IEEE-754 arithmetic the equality needs (stated for non-NaN operands, which
    is all that can occur: every operand is a quotient of bytes by 255 or derived from such) -/
structure FLaws {F : Type} (ops : FOps F) : Prop where
  mul_comm : ∀ a b, ops.mul a b = ops.mul b a
  /-- `f64::max(a, b)` is C's `(a > b) ? a : b` -/
  max_def : ∀ a b, ops.max a b = if ops.lt b a then a else b
  /-- `f64::min(a, b)` is C's `(a < b) ? a : b` -/
  min_def : ∀ a b, ops.min a b = if ops.lt a b then a else b

@[simp] theorem geti_eq (x : UInt8) : BlendRef.geti x = ch x := rfl
@[simp] theorem u8_eq (x : Int) : BlendRef.u8 x = asU8 x := rfl
@[simp] theorem MUL_eq (a b : Int) : BlendRef.MUL_UN8 a b = mulUn8I a b := rfl

theorem asU8_zero_iff (v : Int) (h0 : 0 ≤ v) (h1 : v ≤ 255) : asU8 v = 0 ↔ v = 0 := by
  constructor
  · intro h
    have := ch_asU8 v h0 h1
    rw [h] at this
    exact this.symm
  · intro h; subst h; rfl

theorem blend8_eq (b s o : UInt8) :
    blend8 b s o = asU8 (ch b + mulUn8I (ch s - ch b) (ch o)) := rfl

theorem asU8_zero : asU8 0 = 0 := by decide

theorem blend8_range (b s o : UInt8) :
    0 ≤ ch b + mulUn8I (ch s - ch b) (ch o) ∧ ch b + mulUn8I (ch s - ch b) (ch o) ≤ 255 := by
  have hx0 := ch_nonneg b; have hx1 := ch_le b
  have hy0 := ch_nonneg s; have hy1 := ch_le s
  have ho0 := ch_nonneg o; have ho1 := ch_le o
  rcases Int.le_total 0 (ch s - ch b) with hd | hd
  · have := mulUn8I_bounds_nonneg _ _ hd ho0 ho1; omega
  · have := mulUn8I_bounds_neg _ _ hd ho0 ho1; omega

/-- `merge` is `rgba_blender_merge` -/
theorem merge_eq (x y : RGBA) (op : UInt8) :
    merge x y op = Spec.BlendRef.merge x y (ch op) := by
  have hr := blend8_range x.a y.a op
  have hz := asU8_zero_iff _ hr.1 hr.2
  unfold merge Spec.BlendRef.merge
  simp only [geti_eq, MUL_eq, BlendRef.rgba, u8_eq, blend8_eq, beq_iff_eq, ch_eq_zero_iff]
  by_cases hx : x.a = 0
  · simp only [hx, if_true]
    by_cases hR : ch (0 : UInt8) + mulUn8I (ch y.a - ch (0 : UInt8)) (ch op) = 0
    · rw [hx] at hz
      simp [hR, hz.mpr hR, asU8_zero]
    · rw [hx] at hz
      have : ¬ asU8 (ch (0 : UInt8) + mulUn8I (ch y.a - ch (0 : UInt8)) (ch op)) = 0 :=
        fun h => hR (hz.mp h)
      simp [hR, this]
  · simp only [hx, if_false]
    by_cases hy : y.a = 0
    · simp only [hy, if_true]
      by_cases hR : ch x.a + mulUn8I (ch (0 : UInt8) - ch x.a) (ch op) = 0
      · rw [hy] at hz
        simp [hR, hz.mpr hR, asU8_zero]
      · rw [hy] at hz
        have : ¬ asU8 (ch x.a + mulUn8I (ch (0 : UInt8) - ch x.a) (ch op)) = 0 :=
          fun h => hR (hz.mp h)
        simp [hR, this]
    · simp only [hy, if_false]
      by_cases hR : ch x.a + mulUn8I (ch y.a - ch x.a) (ch op) = 0
      · simp [hR, hz.mpr hR, asU8_zero]
      · have : ¬ asU8 (ch x.a + mulUn8I (ch y.a - ch x.a) (ch op)) = 0 :=
          fun h => hR (hz.mp h)
        simp [hR, this]


/-- `normal` is `rgba_blender_normal` (and never fails, in either build profile) -/
theorem normal_eq (m : Profile) (b s : RGBA) (o : UInt8) :
    normal m b s o = .ok (Spec.BlendRef.normal b s (ch o)) := by
  unfold normal Spec.BlendRef.normal
  simp only [geti_eq, MUL_eq, BlendRef.rgba, u8_eq, ch_eq_zero_iff]
  by_cases hb : b.a = 0
  · have : (b.a == 0) = true := by simpa using hb
    simp only [this, hb, if_true]
    rw [fromRgbaI32_bytes]
    rfl
  · have hb' : (b.a == 0) = false := by simpa using hb
    simp only [hb', hb, Bool.false_eq_true, if_false]
    by_cases hs : s.a = 0
    · have : (s.a == 0) = true := by simpa using hs
      simp [this, hs]
    · have hs' : (s.a == 0) = false := by simpa using hs
      simp only [hs', hs, Bool.false_eq_true, if_false]
      have hba1 : 1 ≤ ch b.a := by
        have h0 := ch_nonneg b.a
        have : ch b.a ≠ 0 := fun h => hb ((ch_eq_zero_iff _).mp h)
        omega
      have hsa0 := mulUn8I_bounds_nonneg (ch s.a) (ch o) (ch_nonneg _) (ch_nonneg _) (ch_le _)
      have hsa255 : mulUn8I (ch s.a) (ch o) ≤ 255 := by have := ch_le s.a; omega
      rw [ch_mulUn8 (ch s.a) (ch o) (ch_nonneg _) (ch_le _) (ch_nonneg _) (ch_le _)]
      rw [ch_mulUn8 (ch b.a) _ (by omega) (ch_le _) hsa0.1 hsa255]
      have hr := normal_ra_range (mulUn8I (ch s.a) (ch o)) (ch b.a) hsa0.1 hsa255 hba1 (ch_le _)
      generalize mulUn8I (ch s.a) (ch o) = sa at *
      generalize hra : sa + ch b.a - mulUn8I (ch b.a) sa = ra at *
      have : (ra == 0) = false := by
        have : ra ≠ 0 := by omega
        simpa using this
      simp only [this, Bool.false_eq_true, if_false]
      have c1 := channel_range (ch b.r) (ch s.r) sa ra (ch_nonneg _) (ch_le _) (ch_nonneg _)
        (ch_le _) (by omega) hsa0.1 (by omega)
      have c2 := channel_range (ch b.g) (ch s.g) sa ra (ch_nonneg _) (ch_le _) (ch_nonneg _)
        (ch_le _) (by omega) hsa0.1 (by omega)
      have c3 := channel_range (ch b.b) (ch s.b) sa ra (ch_nonneg _) (ch_le _) (ch_nonneg _)
        (ch_le _) (by omega) hsa0.1 (by omega)
      rw [fromRgbaI32_inRange m _ _ _ _ c1 c2 c3 ⟨by omega, by omega⟩]

/-- `blender` is the `RGBA_BLENDER_N` wrapper, given that the baseline functions agree -/
theorem blender_eq (m : Profile) (f : RGBA → RGBA → UInt8 → Res RGBA) (g : RGBA → RGBA → Int → RGBA)
    (b s : RGBA) (o : UInt8) (hfg : f b s o = .ok (g b s (ch o))) :
    blender m f b s o = .ok (Spec.BlendRef.blenderN g b s (ch o)) := by
  unfold blender Spec.BlendRef.blenderN
  simp only [geti_eq, MUL_eq, ch_eq_zero_iff, ne_eq]
  by_cases hb : b.a = 0
  · have : (b.a != 0) = false := by simpa using hb
    simp only [this, hb, Bool.false_eq_true, if_false, not_true_eq_false]
    exact normal_eq m b s o
  · have hb' : (b.a != 0) = true := by simpa using hb
    simp only [hb', hb, if_true, not_false_eq_true, normal_eq, hfg, Res.bind_ok, Res.pure_eq]
    have h1 := ch_mulUn8 (ch s.a) (ch o) (ch_nonneg _) (ch_le _) (ch_nonneg _) (ch_le _)
    have hsa0 := mulUn8I_bounds_nonneg (ch s.a) (ch o) (ch_nonneg _) (ch_nonneg _) (ch_le _)
    have hsa255 : mulUn8I (ch s.a) (ch o) ≤ 255 := by have := ch_le s.a; omega
    have h2 := ch_mulUn8 (ch b.a) (ch (mulUn8 (ch s.a) (ch o))) (ch_nonneg _) (ch_le _)
      (ch_nonneg _) (ch_le _)
    rw [merge_eq, merge_eq, h2, h1]


theorem blendChannel_eq (m : Profile) (f : Int → Int → Res UInt8) (g : Int → Int → Int)
    (b s : RGBA) (o : UInt8)
    (hf : ∀ x y : UInt8, f (ch x) (ch y) = .ok (asU8 (g (ch x) (ch y)))) :
    blendChannel m f b s o = .ok (Spec.BlendRef.perChannel g b s (ch o)) := by
  unfold blendChannel Spec.BlendRef.perChannel
  simp only [hf, Res.bind_ok, normal_eq, geti_eq, u8_eq]

theorem asU8_sub_ch_asU8 (a x : Int) : asU8 (a - ch (asU8 x)) = asU8 (a - x) := by
  have h : ch (asU8 x) = x % 256 := by
    simp only [ch, asU8]
    have hlt : (x % 256).toNat < 256 := by omega
    rw [UInt8.toNat_ofNat_of_lt' hlt]
    omega
  unfold asU8 at *
  rw [h]
  congr 2
  omega

section chan
variable (x y : UInt8)

theorem chMultiply_eq : chMultiply (ch x) (ch y) = .ok (asU8 (Spec.BlendRef.blend_multiply (ch x) (ch y))) := rfl

theorem chScreen_eq' (a b : Int) (ha0 : 0 ≤ a) (ha : a ≤ 255) (hb0 : 0 ≤ b) (hb : b ≤ 255) :
    chScreen a b = .ok (asU8 (Spec.BlendRef.blend_screen a b)) := by
  simp only [chScreen, Spec.BlendRef.blend_screen, MUL_eq, ch_mulUn8 a b ha0 ha hb0 hb]

theorem chScreen_eq : chScreen (ch x) (ch y) = .ok (asU8 (Spec.BlendRef.blend_screen (ch x) (ch y))) :=
  chScreen_eq' _ _ (ch_nonneg _) (ch_le _) (ch_nonneg _) (ch_le _)

theorem chHardLight_eq' (a b : Int) (ha0 : 0 ≤ a) (ha : a ≤ 255) (hb0 : 0 ≤ b) (hb : b ≤ 255) :
    chHardLight a b = .ok (asU8 (Spec.BlendRef.blend_hard_light a b)) := by
  unfold chHardLight Spec.BlendRef.blend_hard_light
  by_cases h : b < 128
  · simp only [h, if_true]; rfl
  · simp only [h, if_false]
    exact chScreen_eq' a (b * 2 - 255) ha0 ha (by omega) (by omega)

theorem chHardLight_eq :
    chHardLight (ch x) (ch y) = .ok (asU8 (Spec.BlendRef.blend_hard_light (ch x) (ch y))) :=
  chHardLight_eq' _ _ (ch_nonneg _) (ch_le _) (ch_nonneg _) (ch_le _)

theorem chOverlay_eq :
    chOverlay (ch x) (ch y) = .ok (asU8 (Spec.BlendRef.blend_overlay (ch x) (ch y))) :=
  chHardLight_eq' _ _ (ch_nonneg _) (ch_le _) (ch_nonneg _) (ch_le _)

theorem chDarken_eq : chDarken (ch x) (ch y) = .ok (asU8 (Spec.BlendRef.blend_darken (ch x) (ch y))) := by
  unfold chDarken Spec.BlendRef.blend_darken
  congr 2
  split <;> omega

theorem chLighten_eq : chLighten (ch x) (ch y) = .ok (asU8 (Spec.BlendRef.blend_lighten (ch x) (ch y))) := by
  unfold chLighten Spec.BlendRef.blend_lighten
  congr 2
  split <;> omega

theorem chDifference_eq :
    chDifference (ch x) (ch y) = .ok (asU8 (Spec.BlendRef.blend_difference (ch x) (ch y))) := by
  unfold chDifference Spec.BlendRef.blend_difference
  congr 2
  split <;> omega

theorem chExclusion_eq :
    chExclusion (ch x) (ch y) = .ok (asU8 (Spec.BlendRef.blend_exclusion (ch x) (ch y))) := by
  simp only [chExclusion, Spec.BlendRef.blend_exclusion, MUL_eq,
    ch_mulUn8 _ _ (ch_nonneg x) (ch_le x) (ch_nonneg y) (ch_le y)]

theorem divUn8_eq (a b : Int) (hb : b ≠ 0) : divUn8 a b = .ok (asU8 (Spec.BlendRef.DIV_UN8 a b)) := by
  have : (b == 0) = false := by simpa using hb
  simp [divUn8, this, Spec.BlendRef.DIV_UN8]

theorem chDivide_eq : chDivide (ch x) (ch y) = .ok (asU8 (Spec.BlendRef.blend_divide (ch x) (ch y))) := by
  have hx0 := ch_nonneg x
  unfold chDivide Spec.BlendRef.blend_divide
  by_cases h0 : ch x = 0
  · simp [h0]; rfl
  · have : (ch x == 0) = false := by simpa using h0
    simp only [this, h0, Bool.false_eq_true, if_false]
    by_cases h1 : ch x ≥ ch y
    · simp [h1]; rfl
    · simp only [h1, if_false]
      exact divUn8_eq _ _ (by omega)

theorem chColorDodge_eq :
    chColorDodge (ch x) (ch y) = .ok (asU8 (Spec.BlendRef.blend_color_dodge (ch x) (ch y))) := by
  have hx0 := ch_nonneg x
  unfold chColorDodge Spec.BlendRef.blend_color_dodge
  by_cases h0 : ch x = 0
  · simp [h0]; rfl
  · have : (ch x == 0) = false := by simpa using h0
    simp only [this, h0, Bool.false_eq_true, if_false]
    by_cases h1 : ch x ≥ 255 - ch y
    · simp [h1]; rfl
    · simp only [h1, if_false]
      exact divUn8_eq _ _ (by omega)

theorem chColorBurn_eq :
    chColorBurn (ch x) (ch y) = .ok (asU8 (Spec.BlendRef.blend_color_burn (ch x) (ch y))) := by
  have hx1 := ch_le x
  unfold chColorBurn Spec.BlendRef.blend_color_burn
  by_cases h0 : ch x = 255
  · simp [h0]; rfl
  · have : (ch x == 255) = false := by simpa using h0
    simp only [this, h0, Bool.false_eq_true, if_false]
    by_cases h1 : 255 - ch x ≥ ch y
    · simp [h1]; rfl
    · simp only [h1, if_false]
      rw [divUn8_eq _ _ (by omega)]
      simp only [Res.map_ok, asU8_sub_ch_asU8]

end chan


theorem fromRgbaI32_release (r g b a : Int) :
    fromRgbaI32 Profile.release r g b a = .ok ⟨asU8 r, asU8 g, asU8 b, asU8 a⟩ := by
  simp [fromRgbaI32, Profile.release]

theorem addition_eq (m : Profile) (b s : RGBA) (o : UInt8) :
    additionBase m b s o = .ok (Spec.BlendRef.addition b s (ch o)) := by
  unfold additionBase Spec.BlendRef.addition
  have hf := fromRgbaI32_inRange m (min (ch b.r + ch s.r) 255) (min (ch b.g + ch s.g) 255)
    (min (ch b.b + ch s.b) 255) (ch s.a)
    (by have := ch_nonneg b.r; have := ch_nonneg s.r; omega)
    (by have := ch_nonneg b.g; have := ch_nonneg s.g; omega)
    (by have := ch_nonneg b.b; have := ch_nonneg s.b; omega)
    ⟨ch_nonneg _, ch_le _⟩
  simp only [hf, Res.bind_ok, normal_eq, geti_eq, u8_eq, asU8_ch]
  have e : ∀ v : Int, asU8 (min v 255) = asU8 (if v < 255 then v else 255) := by
    intro v; congr 1; split <;> omega
  rw [e, e, e]
  rfl

theorem subtract_eq (m : Profile) (b s : RGBA) (o : UInt8) :
    subtractBase m b s o = .ok (Spec.BlendRef.subtract b s (ch o)) := by
  unfold subtractBase Spec.BlendRef.subtract
  have hf := fromRgbaI32_inRange m (max (ch b.r - ch s.r) 0) (max (ch b.g - ch s.g) 0)
    (max (ch b.b - ch s.b) 0) (ch s.a)
    (by have := ch_le b.r; have := ch_nonneg s.r; omega)
    (by have := ch_le b.g; have := ch_nonneg s.g; omega)
    (by have := ch_le b.b; have := ch_nonneg s.b; omega)
    ⟨ch_nonneg _, ch_le _⟩
  simp only [hf, Res.bind_ok, normal_eq, geti_eq, u8_eq, asU8_ch]
  have e : ∀ v : Int, asU8 (max v 0) = asU8 (if v > 0 then v else 0) := by
    intro v; congr 1; split <;> omega
  rw [e, e, e]
  rfl

section float
variable {F : Type} (ops : FOps F)

theorem softLightCh_eq (b s : Int) : softLightCh ops b s = Spec.BlendRef.blend_soft_light ops b s := rfl

theorem softLight_eq (b s : RGBA) (o : UInt8) :
    softLightBase ops Profile.release b s o = .ok (Spec.BlendRef.softLight ops b s (ch o)) := by
  unfold softLightBase Spec.BlendRef.softLight
  simp only [fromRgbaI32_release, Res.bind_ok, normal_eq, geti_eq, u8_eq, asU8_ch, softLightCh_eq]

variable (L : FLaws ops)
include L

theorem saturation_eq (r g b : F) : saturation ops (r, g, b) = Spec.BlendRef.sat ops r g b := by
  simp only [saturation, Spec.BlendRef.sat, Spec.BlendRef.MAXd, Spec.BlendRef.MINd, L.max_def, L.min_def]
  rfl

omit L in
theorem luminosity_eq (r g b : F) : luminosity ops (r, g, b) = Spec.BlendRef.lum ops r g b := rfl

theorem clipColor_eq (r g b : F) : clipColor ops (r, g, b) = Spec.BlendRef.clip_color ops r g b := by
  simp only [clipColor, Spec.BlendRef.clip_color, Spec.BlendRef.MAXd, Spec.BlendRef.MINd,
    L.max_def, L.min_def, luminosity_eq ops]
  split <;> split <;> rfl

theorem setLuminosity_eq (r g b l : F) :
    setLuminosity ops (r, g, b) l = Spec.BlendRef.set_lum ops r g b l := by
  simp only [setLuminosity, Spec.BlendRef.set_lum, luminosity_eq ops, clipColor_eq ops L]

theorem staticSort_eq (r g b : F) :
    staticSort3Orig ops r g b =
      (Spec.BlendRef.minRef ops r g b, Spec.BlendRef.midRef ops r g b, Spec.BlendRef.maxRef ops r g b) := by
  simp only [staticSort3Orig, Spec.BlendRef.minRef, Spec.BlendRef.midRef, Spec.BlendRef.maxRef,
    Spec.BlendRef.MAXd, Spec.BlendRef.MINd, L.max_def, L.min_def]
  rfl

omit L in
theorem getC_eq (c : F × F × F) (i : Nat) : getC c i = Spec.BlendRef.get3 c i := by
  unfold getC Spec.BlendRef.get3; rfl
omit L in
theorem setC_eq (c : F × F × F) (i : Nat) (v : F) : setC c i v = Spec.BlendRef.set3 c i v := by
  unfold setC Spec.BlendRef.set3; rfl

omit L in
/-- assigning the same value to two slots commutes -/
theorem set3_comm_same (c : F × F × F) (i j : Nat) (v : F) :
    Spec.BlendRef.set3 (Spec.BlendRef.set3 c i v) j v = Spec.BlendRef.set3 (Spec.BlendRef.set3 c j v) i v := by
  unfold Spec.BlendRef.set3
  rcases i with _ | _ | i <;> rcases j with _ | _ | j <;> rfl

theorem setSaturation_eq (r g b sat : F) :
    setSaturation ops (r, g, b) sat = Spec.BlendRef.set_sat ops r g b sat := by
  unfold setSaturation Spec.BlendRef.set_sat
  simp only [staticSort_eq ops L, getC_eq, setC_eq]
  split
  · rfl
  · rw [set3_comm_same _ (Spec.BlendRef.midRef ops r g b) (Spec.BlendRef.maxRef ops r g b)]

omit L in
theorem asRgbF_eq (c : RGBA) :
    asRgbF ops c = (Spec.BlendRef.chanF ops c.r, Spec.BlendRef.chanF ops c.g, Spec.BlendRef.chanF ops c.b) := rfl

theorem fromRgbF_eq (c : F × F × F) (a : UInt8) :
    fromRgbF ops Profile.release c a = .ok (Spec.BlendRef.packF ops c a) := by
  simp only [fromRgbF, fromRgbaI32_release, Spec.BlendRef.packF, u8_eq, asU8_ch, L.mul_comm]

theorem setLuminosity_eq' (c : F × F × F) (l : F) :
    setLuminosity ops c l = Spec.BlendRef.set_lum ops c.1 c.2.1 c.2.2 l := by
  obtain ⟨r, g, b⟩ := c
  exact setLuminosity_eq ops L r g b l

theorem hue_eq (b s : RGBA) (o : UInt8) :
    hueBase ops Profile.release b s o = .ok (Spec.BlendRef.hslHue ops b s (ch o)) := by
  unfold hueBase Spec.BlendRef.hslHue
  simp only [asRgbF_eq, saturation_eq ops L, luminosity_eq ops, setSaturation_eq ops L,
    setLuminosity_eq' ops L, fromRgbF_eq ops L, Res.bind_ok, normal_eq]

theorem saturation_mode_eq (b s : RGBA) (o : UInt8) :
    saturationBase ops Profile.release b s o = .ok (Spec.BlendRef.hslSaturation ops b s (ch o)) := by
  unfold saturationBase Spec.BlendRef.hslSaturation
  simp only [asRgbF_eq, saturation_eq ops L, luminosity_eq ops, setSaturation_eq ops L,
    setLuminosity_eq' ops L, fromRgbF_eq ops L, Res.bind_ok, normal_eq]

theorem color_eq (b s : RGBA) (o : UInt8) :
    colorBase ops Profile.release b s o = .ok (Spec.BlendRef.hslColor ops b s (ch o)) := by
  unfold colorBase Spec.BlendRef.hslColor
  simp only [asRgbF_eq, luminosity_eq ops, setLuminosity_eq ops L, fromRgbF_eq ops L,
    Res.bind_ok, normal_eq]

theorem luminosity_mode_eq (b s : RGBA) (o : UInt8) :
    luminosityBase ops Profile.release b s o = .ok (Spec.BlendRef.hslLuminosity ops b s (ch o)) := by
  unfold luminosityBase Spec.BlendRef.hslLuminosity
  simp only [asRgbF_eq, luminosity_eq ops, setLuminosity_eq ops L, fromRgbF_eq ops L,
    Res.bind_ok, normal_eq]

/-- every baseline function is the corresponding `rgba_blender_<mode>` -/
theorem baseline_eq (mode : Nat) (hm : mode ≤ 18) (b s : RGBA) (o : UInt8) :
    baseline ops Profile.release mode b s o = .ok (Spec.BlendRef.base ops mode b s (ch o)) := by
  interval_cases mode
  · exact blendChannel_eq _ _ _ b s o chDivide_eq
  · exact blendChannel_eq _ _ _ b s o chMultiply_eq
  · exact blendChannel_eq _ _ _ b s o chScreen_eq
  · exact blendChannel_eq _ _ _ b s o chOverlay_eq
  · exact blendChannel_eq _ _ _ b s o chDarken_eq
  · exact blendChannel_eq _ _ _ b s o chLighten_eq
  · exact blendChannel_eq _ _ _ b s o chColorDodge_eq
  · exact blendChannel_eq _ _ _ b s o chColorBurn_eq
  · exact blendChannel_eq _ _ _ b s o chHardLight_eq
  · exact softLight_eq ops b s o
  · exact blendChannel_eq _ _ _ b s o chDifference_eq
  · exact blendChannel_eq _ _ _ b s o chExclusion_eq
  · exact hue_eq ops L b s o
  · exact saturation_mode_eq ops L b s o
  · exact color_eq ops L b s o
  · exact luminosity_mode_eq ops L b s o
  · exact addition_eq _ b s o
  · exact subtract_eq _ b s o
  · exact blendChannel_eq _ _ _ b s o chDivide_eq

/-- **C03**: for every blend mode id 0..18 (the ids the decoder accepts), every backdrop, source and opacity, and every
    floating-point instance satisfying `FLaws`, the model of `src/blend.rs` (optimised build)
    returns exactly the pixel that the transcription of Aseprite's C++ blend functions returns
    — bit for bit, over the whole 2^72-point domain (2^80 with the opacity product
    `mul_un8(layer_opacity, cel_opacity)` of the public API). -/
theorem blend_eq_ref (mode : Nat) (hm18 : mode ≤ 18) (b s : RGBA) (o : UInt8) :
    blend ops Profile.release mode b s o = .ok (Spec.BlendRef.blend ops mode b s o) := by
  unfold blend Spec.BlendRef.blend
  by_cases hm : mode = 0
  · have : (mode == 0) = true := by simpa using hm
    simp only [this, hm, if_true, geti_eq]
    exact normal_eq _ b s o
  · have : (mode == 0) = false := by simpa using hm
    simp only [this, hm, Bool.false_eq_true, if_false, geti_eq]
    exact blender_eq _ _ _ b s o (baseline_eq ops L mode hm18 b s o)

end float


/-- For the 14 integer modes the equality holds in the checked build as well (no floating
    point, no law needed, no debug assertion fires). -/
theorem blend_eq_ref_int {F : Type} (ops : FOps F) (m : Profile) (mode : Nat)
    (hm : intMode mode = true) (b s : RGBA) (o : UInt8) :
    blend ops m mode b s o = .ok (Spec.BlendRef.blend ops mode b s o) := by
  unfold blend Spec.BlendRef.blend
  by_cases h0 : mode = 0
  · have : (mode == 0) = true := by simpa using h0
    simp only [this, h0, if_true, geti_eq]
    exact normal_eq _ b s o
  · have : (mode == 0) = false := by simpa using h0
    simp only [this, h0, Bool.false_eq_true, if_false, geti_eq]
    apply blender_eq
    simp only [intMode] at hm
    have hcases : mode = 1 ∨ mode = 2 ∨ mode = 3 ∨ mode = 4 ∨ mode = 5 ∨ mode = 6 ∨
        mode = 7 ∨ mode = 8 ∨ mode = 10 ∨ mode = 11 ∨ mode = 16 ∨ mode = 17 ∨ mode = 18 := by
      simp at hm; omega
    rcases hcases with h | h | h | h | h | h | h | h | h | h | h | h | h <;> subst h
    · exact blendChannel_eq _ _ _ b s o chMultiply_eq
    · exact blendChannel_eq _ _ _ b s o chScreen_eq
    · exact blendChannel_eq _ _ _ b s o chOverlay_eq
    · exact blendChannel_eq _ _ _ b s o chDarken_eq
    · exact blendChannel_eq _ _ _ b s o chLighten_eq
    · exact blendChannel_eq _ _ _ b s o chColorDodge_eq
    · exact blendChannel_eq _ _ _ b s o chColorBurn_eq
    · exact blendChannel_eq _ _ _ b s o chHardLight_eq
    · exact blendChannel_eq _ _ _ b s o chDifference_eq
    · exact blendChannel_eq _ _ _ b s o chExclusion_eq
    · exact addition_eq _ b s o
    · exact subtract_eq _ b s o
    · exact blendChannel_eq _ _ _ b s o chDivide_eq

/-- non-vacuity of `FLaws`: an instance (integers standing in for floats) satisfies the laws -/
def intOps : FOps Int where
  add := (· + ·)
  sub := (· - ·)
  mul := (· * ·)
  div := Int.tdiv
  sqrt := id
  max := fun a b => if b < a then a else b
  min := fun a b => if a < b then a else b
  lt := fun a b => decide (a < b)
  le := fun a b => decide (a ≤ b)
  ofInt := id
  toI32 := id
  toU32 := Int.toNat
  c0_25 := 0
  c0_5 := 0
  c0_3 := 0
  c0_59 := 0
  c0_11 := 0

example : FLaws intOps where
  mul_comm := fun a b => Int.mul_comm a b
  max_def := fun a b => by simp [intOps]
  min_def := fun a b => by simp [intOps]

/-- blend-mode ids decode to themselves (`parse_blend_mode`): the dispatch table is the identity
    on 0..18 and rejects everything else -/
theorem dispatch_table (id : UInt16) :
    (id.toNat ≤ 18 → parseBlendMode id [] = .ok (id.toNat, [])) ∧
    (18 < id.toNat → parseBlendMode id [] = .err .invalid) := by
  unfold parseBlendMode
  constructor
  · intro h; simp [h]
  · intro h
    have : ¬ id.toNat ≤ 18 := by omega
    simp [this]

end Ase.Proofs.C03
