import Ase.Parse
import AseProofs.Lemmas.AttachFrames
/-
  C10 (tags chunks): a Tags chunk in frame 0 REPLACES the tag list and restarts the tag
  context at tag 0, whatever tags / context were there before (so a second Tags chunk discards
  the first one's tags together with their records); a Tags chunk in a later frame is decoded
  (its errors are reported) and otherwise ignored; the records that follow a frame-0 Tags chunk
  go to its tags 0, 1, 2, … in order.
-/
namespace Ase.Proofs.C10
open Ase

/-- `pi1` and `pi2` agree on every field except (possibly) `tags` and `ctx` -/
structure AgreeExceptTagsCtx (pi1 pi2 : ParseInfo) : Prop where
  palette : pi1.palette = pi2.palette
  layers : pi1.layers = pi2.layers
  cels : pi1.cels = pi2.cels
  frameTimes : pi1.frameTimes = pi2.frameTimes
  extFiles : pi1.extFiles = pi2.extFiles
  tilesets : pi1.tilesets = pi2.tilesets
  spriteUserData : pi1.spriteUserData = pi2.spriteUserData
  slices : pi1.slices = pi2.slices

theorem AgreeExceptTagsCtx.with_eq {pi1 pi2 : ParseInfo} (h : AgreeExceptTagsCtx pi1 pi2)
    (t : Option (Array Tag)) (c : Option UDCtx) :
    { pi1 with tags := t, ctx := c } = { pi2 with tags := t, ctx := c } := by
  obtain ⟨h1, h2, h3, h4, h5, h6, h7, h8⟩ := h
  cases pi1; cases pi2
  simp only at h1 h2 h3 h4 h5 h6 h7 h8
  simp only [h1, h2, h3, h4, h5, h6, h7, h8]

/-- what `processChunk` does with a Tags chunk, for every frame, state and payload -/
theorem processChunk_tags (inflate : Inflate) (m : Profile) (fmt : PixelFormat) (frame : Nat)
    (pi : ParseInfo) (c : Chunk) (hty : c.ty = .tags) :
    processChunk inflate m fmt frame pi c =
      (runChunk parseTagsChunk c.data).map (fun ts =>
        if frame = 0 then { pi with tags := some ts.toArray, ctx := some (.tag 0) } else pi) := by
  unfold processChunk
  simp only [hty]
  cases runChunk parseTagsChunk c.data with
  | ok ts =>
      by_cases hf : frame = 0
      · subst hf; rfl
      · have : (frame == 0) = false := by simpa using hf
        simp only [Res.bind_ok, this, Res.map_ok, hf, if_false]; rfl
  | err e => rfl
  | panic p => rfl

/-- **(a)** A Tags chunk in frame 0 whose payload parses to `ts` replaces the tags and the
    context of ANY state: the new state has `tags = some ts.toArray`, `ctx = some (.tag 0)` and
    the other fields of the old state; hence two states that agree on all fields except `tags`
    and `ctx` are sent to the same state. -/
theorem tags_chunk_replaces (inflate : Inflate) (m : Profile) (fmt : PixelFormat)
    (pi1 pi2 : ParseInfo) (c : Chunk) (ts : List Tag) (hty : c.ty = .tags)
    (hp : runChunk parseTagsChunk c.data = .ok ts) (hag : AgreeExceptTagsCtx pi1 pi2) :
    processChunk inflate m fmt 0 pi1 c =
        .ok { pi1 with tags := some ts.toArray, ctx := some (.tag 0) } ∧
    processChunk inflate m fmt 0 pi1 c = processChunk inflate m fmt 0 pi2 c := by
  rw [processChunk_tags _ _ _ _ _ _ hty, processChunk_tags _ _ _ _ _ _ hty, hp]
  simp only [Res.map_ok, if_true, hag.with_eq, and_self]

/-- (a), also for payloads that do not parse: in frame 0 the result of ANY Tags chunk (state,
    error or panic) does not depend on the old `tags` and `ctx`. -/
theorem tags_chunk_replaces_any (inflate : Inflate) (m : Profile) (fmt : PixelFormat)
    (pi1 pi2 : ParseInfo) (c : Chunk) (hty : c.ty = .tags) (hag : AgreeExceptTagsCtx pi1 pi2) :
    processChunk inflate m fmt 0 pi1 c = processChunk inflate m fmt 0 pi2 c := by
  rw [processChunk_tags _ _ _ _ _ _ hty, processChunk_tags _ _ _ _ _ _ hty]
  simp only [if_true, hag.with_eq]

/-- **(b)** In a frame other than 0, a Tags chunk that parses leaves the state unchanged, and
    one that does not parse gives the failure it gives in frame 0 (from any state `pi0`). -/
theorem tags_chunk_later_frame_ignored (inflate : Inflate) (m : Profile) (fmt : PixelFormat)
    (frame : Nat) (hframe : frame ≠ 0) (pi : ParseInfo) (c : Chunk) (hty : c.ty = .tags) :
    (∀ ts, runChunk parseTagsChunk c.data = .ok ts →
      processChunk inflate m fmt frame pi c = .ok pi) ∧
    ((∀ ts, runChunk parseTagsChunk c.data ≠ .ok ts) → ∀ pi0,
      processChunk inflate m fmt frame pi c = processChunk inflate m fmt 0 pi0 c) ∧
    (∀ e, runChunk parseTagsChunk c.data = .err e →
      processChunk inflate m fmt frame pi c = .err e ∧
      processChunk inflate m fmt 0 pi c = .err e) ∧
    (∀ p, runChunk parseTagsChunk c.data = .panic p →
      processChunk inflate m fmt frame pi c = .panic p ∧
      processChunk inflate m fmt 0 pi c = .panic p) := by
  refine ⟨?_, ?_, ?_, ?_⟩
  · intro ts hp
    rw [processChunk_tags _ _ _ _ _ _ hty, hp]
    simp only [Res.map_ok, hframe, if_false]
  · intro hno pi0
    rw [processChunk_tags _ _ _ _ _ _ hty, processChunk_tags _ _ _ _ _ _ hty]
    cases hr : runChunk parseTagsChunk c.data with
    | ok ts => exact absurd hr (hno ts)
    | err e => rfl
    | panic p => rfl
  · intro e he
    rw [processChunk_tags _ _ _ _ _ _ hty, processChunk_tags _ _ _ _ _ _ hty, he]
    exact ⟨rfl, rfl⟩
  · intro p he
    rw [processChunk_tags _ _ _ _ _ _ hty, processChunk_tags _ _ _ _ _ _ hty, he]
    exact ⟨rfl, rfl⟩

/-! ### the records after a Tags chunk -/

/-- a user-data chunk whose payload parses to the record `ud` -/
def IsRecord (c : Chunk) (ud : UserData) : Prop :=
  c.ty = .userData ∧ runChunk parseUserDataChunk c.data = .ok ud

def setRec (ud : UserData) (t : Tag) : Tag := { t with userData := some ud }

/-- records `uds` stored on the tags `j, j+1, …` -/
def recTags (arr : Array Tag) : Nat → List UserData → Array Tag
  | _, [] => arr
  | j, u :: us => recTags (arr.modify j (setRec u)) (j + 1) us

theorem recTags_size (uds : List UserData) : ∀ (arr : Array Tag) (j : Nat),
    (recTags arr j uds).size = arr.size := by
  induction uds with
  | nil => intro arr j; rfl
  | cons u us ih => intro arr j; simp only [recTags, ih, Array.size_modify]

theorem recTags_get (uds : List UserData) : ∀ (arr : Array Tag) (j i : Nat) (hi : i < arr.size),
    (recTags arr j uds)[i]? = some
      (if h : j ≤ i ∧ i - j < uds.length then setRec (uds[i - j]'h.2) arr[i] else arr[i]) := by
  induction uds with
  | nil =>
      intro arr j i hi
      simp [recTags, hi]
  | cons u us ih =>
      intro arr j i hi
      simp only [recTags]
      rw [ih _ _ _ (by simpa using hi)]
      simp only [Array.getElem_modify, List.length_cons]
      by_cases h1 : j = i
      · subst h1
        simp
        intro h; omega
      · by_cases h2 : j + 1 ≤ i
        · have e : i - j = (i - (j + 1)) + 1 := by omega
          by_cases h3 : i - (j + 1) < us.length
          · have h4 : j ≤ i ∧ i - j < us.length + 1 := by omega
            simp only [h2, h3, and_self, dite_true, h4, h1, if_false]
            congr 2
            simp only [e, List.getElem_cons_succ]
          · have h4 : ¬ (j ≤ i ∧ i - j < us.length + 1) := by omega
            simp [h3, h4, h1]
        · have h4 : ¬ (j ≤ i ∧ i - j < us.length + 1) := by omega
          have h5 : ¬ (j + 1 ≤ i ∧ i - (j + 1) < us.length) := by omega
          simp [h4, h5, h1]

theorem setUD_modify {α} (arr : Array α) (i : Nat) (f : α → α) (hi : i < arr.size) :
    setUD arr i f = some (arr.modify i f) := by
  unfold setUD
  rw [Array.getElem?_eq_getElem hi]
  simp only [Option.some.injEq]
  apply Array.ext
  · simp
  · intro k h1 h2
    have hk : k < arr.size := by simpa using h2
    simp only [Array.set!_eq_setIfInBounds, Array.getElem_setIfInBounds hk, Array.getElem_modify]
    by_cases h : i = k
    · subst h; simp
    · simp [h]

/-- one record in the tag context `j` (any frame) -/
theorem processChunk_record_tag (inflate : Inflate) (m : Profile) (fmt : PixelFormat)
    (frame : Nat) (pi : ParseInfo) (arr : Array Tag) (j : Nat) (hj : j < arr.size) (c : Chunk)
    (ud : UserData) (hc : IsRecord c ud) :
    processChunk inflate m fmt frame { pi with tags := some arr, ctx := some (.tag j) } c =
      .ok { pi with tags := some (arr.modify j (setRec ud)), ctx := some (.tag (j + 1)) } := by
  unfold processChunk
  simp only [hc.1, hc.2, Res.bind_ok, ParseInfo.addUserData]
  rw [setUD_modify _ _ _ hj]
  rfl

/-- `uds.length` records in the tag context `j` (any frame), while there are tags left -/
theorem processChunks_records_tag (inflate : Inflate) (m : Profile) (fmt : PixelFormat)
    (frame : Nat) (pi : ParseInfo) : ∀ (cs : List Chunk) (uds : List UserData)
    (_ : All₂ IsRecord cs uds) (arr : Array Tag) (j : Nat)
    (_ : j + uds.length ≤ arr.size),
    processChunks inflate m fmt frame { pi with tags := some arr, ctx := some (.tag j) } cs =
      .ok { pi with tags := some (recTags arr j uds), ctx := some (.tag (j + uds.length)) } := by
  intro cs uds h
  induction h with
  | nil => intro arr j _; rfl
  | cons hc _ ih =>
      intro arr j hj
      simp only [List.length_cons] at hj
      simp only [processChunks]
      rw [processChunk_record_tag _ _ _ _ _ _ _ (by omega) _ _ hc]
      simp only
      rw [ih _ _ (by simp only [Array.size_modify]; omega)]
      simp only [recTags, List.length_cons]
      congr 4
      omega

/-- **(c)** From ANY state `pi` (for instance one that already holds the tags of an earlier
    Tags chunk and their records): a Tags chunk in frame 0 with tags `ts` followed by
    `k = uds.length ≤ ts.length` user-data chunks parsing to `uds` gives the tags `ts` with
    `userData := some uds[i]` on tag `i` for `i < k` and tag `i` of `ts` itself for `i ≥ k`;
    the context is `tag k`; no other field of `pi` changes. -/
theorem records_after_second_tags_chunk (inflate : Inflate) (m : Profile) (fmt : PixelFormat)
    (pi : ParseInfo) (c : Chunk) (ts : List Tag) (hty : c.ty = .tags)
    (hp : runChunk parseTagsChunk c.data = .ok ts) (cs : List Chunk) (uds : List UserData)
    (hcs : All₂ IsRecord cs uds) (hk : uds.length ≤ ts.length) :
    ∃ arr : Array Tag,
      processChunks inflate m fmt 0 pi (c :: cs) =
        .ok { pi with tags := some arr, ctx := some (.tag uds.length) } ∧
      arr.size = ts.length ∧
      ∀ i (hi : i < ts.length), arr[i]? = some
        (if h : i < uds.length then { ts[i] with userData := some uds[i] } else ts[i]) := by
  refine ⟨recTags ts.toArray 0 uds, ?_, ?_, ?_⟩
  · simp only [processChunks]
    rw [(tags_chunk_replaces inflate m fmt pi pi c ts hty hp ⟨rfl, rfl, rfl, rfl, rfl, rfl, rfl, rfl⟩).1]
    simp only
    have := processChunks_records_tag inflate m fmt 0 pi cs uds hcs ts.toArray 0
      (by simpa using hk)
    simpa using this
  · rw [recTags_size]; simp
  · intro i hi
    rw [recTags_get uds ts.toArray 0 i (by simpa using hi)]
    simp only [Nat.zero_le, true_and, Nat.sub_zero, List.getElem_toArray]
    rfl

/-- (c) does not depend on the old tags and context either -/
theorem records_after_second_tags_chunk_indep (inflate : Inflate) (m : Profile)
    (fmt : PixelFormat) (pi1 pi2 : ParseInfo) (c : Chunk) (hty : c.ty = .tags)
    (cs : List Chunk) (hag : AgreeExceptTagsCtx pi1 pi2) :
    processChunks inflate m fmt 0 pi1 (c :: cs) = processChunks inflate m fmt 0 pi2 (c :: cs) := by
  simp only [processChunks]
  rw [tags_chunk_replaces_any inflate m fmt pi1 pi2 c hty hag]

/-! ### non-vacuity -/

def exInflate : Inflate := fun _ => .err .invalid
/-- a tag `fromFrame..toFrame`, forward, with an empty name -/
def exTagBytes (f t : UInt8) : Bytes := [f, 0, t, 0, 0, 0, 0] ++ zeros 6 ++ [0, 0, 0, 0] ++ [0, 0]
def exTag (f t : UInt16) : Tag := ⟨[], f, t, 0, 0, none⟩
/-- a Tags chunk with two tags -/
def exTags : Chunk := ⟨.tags, [2, 0] ++ zeros 8 ++ exTagBytes 0 1 ++ exTagBytes 2 3⟩
/-- a Tags chunk announcing two tags but holding one -/
def exTagsBad : Chunk := ⟨.tags, [2, 0] ++ zeros 8 ++ exTagBytes 0 1⟩
def exRec1 : Chunk := ⟨.userData, [2, 0, 0, 0, 1, 2, 3, 4]⟩
def exUd1 : UserData := ⟨none, some ⟨1, 2, 3, 4⟩⟩
def exRec2 : Chunk := ⟨.userData, [1, 0, 0, 0, 1, 0, 0x61]⟩
def exUd2 : UserData := ⟨some [0x61], none⟩
/-- a state that already holds one tag with a record, in the tag context -/
def exPi : ParseInfo :=
  { ParseInfo.new 2 100 with tags := some #[{ exTag 7 8 with userData := some exUd2 }],
                             ctx := some (.tag 1) }

theorem exTags_parses : runChunk parseTagsChunk exTags.data = .ok [exTag 0 1, exTag 2 3] := by
  decide
theorem exTagsBad_fails : runChunk parseTagsChunk exTagsBad.data = .err (.io .unexpectedEof) := by
  decide
theorem exRec1_isRecord : IsRecord exRec1 exUd1 := ⟨rfl, by decide⟩
theorem exRec2_isRecord : IsRecord exRec2 exUd2 := ⟨rfl, by decide⟩

/-- (a) applies: `exPi` and the initial state differ in `tags` and `ctx` only -/
example : processChunk exInflate .release .rgba 0 exPi exTags =
    processChunk exInflate .release .rgba 0 (ParseInfo.new 2 100) exTags :=
  (tags_chunk_replaces _ _ _ exPi (ParseInfo.new 2 100) exTags _ rfl exTags_parses
    ⟨rfl, rfl, rfl, rfl, rfl, rfl, rfl, rfl⟩).2

/-- (b) applies, parsing case and failing case -/
example : processChunk exInflate .release .rgba 1 exPi exTags = .ok exPi :=
  (tags_chunk_later_frame_ignored _ _ _ 1 (by decide) exPi exTags rfl).1 _ exTags_parses
example : processChunk exInflate .release .rgba 1 exPi exTagsBad = .err (.io .unexpectedEof) :=
  ((tags_chunk_later_frame_ignored _ _ _ 1 (by decide) exPi exTagsBad rfl).2.2.1 _
    exTagsBad_fails).1

/-- (c) applies with `k = 1 < 2` and with `k = 2` -/
example : ∃ arr : Array Tag,
    processChunks exInflate .release .rgba 0 exPi [exTags, exRec1] =
      .ok { exPi with tags := some arr, ctx := some (.tag 1) } ∧ arr.size = 2 ∧
    arr[0]? = some { exTag 0 1 with userData := some exUd1 } ∧ arr[1]? = some (exTag 2 3) := by
  obtain ⟨arr, h1, h2, h3⟩ := records_after_second_tags_chunk exInflate .release .rgba exPi
    exTags _ rfl exTags_parses [exRec1] [exUd1] (.cons exRec1_isRecord .nil) (by decide)
  exact ⟨arr, h1, h2, h3 0 (by decide), h3 1 (by decide)⟩
example : ∃ arr : Array Tag,
    processChunks exInflate .release .rgba 0 exPi [exTags, exRec1, exRec2] =
      .ok { exPi with tags := some arr, ctx := some (.tag 2) } ∧ arr.size = 2 :=
  let ⟨arr, h1, h2, _⟩ := records_after_second_tags_chunk exInflate .release .rgba exPi
    exTags _ rfl exTags_parses [exRec1, exRec2] [exUd1, exUd2]
    (.cons exRec1_isRecord (.cons exRec2_isRecord .nil)) (by decide)
  ⟨arr, h1, h2⟩

end Ase.Proofs.C10
