import AseProofs.Lemmas.RasterSpec
import AseProofs.Props.C02
/-
  C02 (point-wise)  Every pixel of a frame image is the bottom-to-top composition, at that
  position, of the visible layers' cel pixels.  Raw cels, linked cels and tilemap cels.
-/
namespace Ase.Proofs.C02
open Ase Ase.Proofs

variable {F : Type} (ops : FOps F) (m : Profile)

/-- one composition step at canvas position `(X, Y)`: if the layer is visible, the
    (link-resolved) cel's pixel at `(X, Y)` — if its rectangle / tile area contains `(X, Y)` —
    is blended over the accumulator with the layer's blend mode and the rounded product of
    layer and cel opacity; otherwise the accumulator is kept
    (`specWriteCel`, `specCel`, `celPixel`, `rawSource`, `mapSource` in `Lemmas/RasterSpec.lean`;
    unfolded by `specCel_raw`, `specCel_tilemap`, `specWriteCel_linked`) -/
def specStep (s : Sprite) (X Y : Nat) (acc : RGBA) (lc : Nat × RawCel Pixels) : RGBA :=
  match s.isVisible lc.1 with
  | .ok true => specWriteCel ops m s lc.2 X Y acc
  | _ => acc

/-- the specified pixel of a frame given by its cel table (increasing layer order): the fold
    of `specStep` starting from the fully transparent pixel -/
def specRowPixel (s : Sprite) (row : FrameCels Pixels) (X Y : Nat) : RGBA :=
  row.foldl (specStep ops m s X Y) RGBA.zero

/-- **the specified pixel of frame `f` at `(X, Y)`** -/
def specFramePixel (s : Sprite) (f : Nat) (X Y : Nat) : RGBA :=
  specRowPixel ops m s (s.cels[f]?.getD []) X Y

/-- `specStep` with blend failures propagated instead of skipped -/
def specStepRes (s : Sprite) (X Y : Nat) (acc : RGBA) (lc : Nat × RawCel Pixels) : Res RGBA :=
  match s.isVisible lc.1 with
  | .ok true => specWriteCelRes ops m s lc.2 X Y acc
  | _ => .ok acc

/-- `specRowPixel` with blend failures propagated: a monadic fold in `Res` -/
def specRowPixelRes (s : Sprite) (row : FrameCels Pixels) (X Y : Nat) : Res RGBA :=
  row.foldlM (specStepRes ops m s X Y) RGBA.zero

def specFramePixelRes (s : Sprite) (f : Nat) (X Y : Nat) : Res RGBA :=
  specRowPixelRes ops m s (s.cels[f]?.getD []) X Y

theorem specStep_invisible (s : Sprite) (X Y : Nat) (acc : RGBA) (l : Nat) (c : RawCel Pixels)
    (h : s.isVisible l = .ok false) : specStep ops m s X Y acc (l, c) = acc := by
  simp only [specStep, h]

theorem specStep_visible (s : Sprite) (X Y : Nat) (acc : RGBA) (l : Nat) (c : RawCel Pixels)
    (h : s.isVisible l = .ok true) :
    specStep ops m s X Y acc (l, c) = specWriteCel ops m s c X Y acc := by
  simp only [specStep, h]

/-- the composition loop, point-wise, from any accumulated image; moreover no blend of the
    specification fails -/
theorem frameImageLoop_pointwise_full (s : Sprite) : ∀ (row : FrameCels Pixels) (img img' : Image),
    s.frameImageLoop ops m row img = .ok img' → img.px.size = img.w * img.h →
    ∀ (X Y : Nat), X < img.w → Y < img.h → ∀ acc, img.get X Y = .ok acc →
      img'.get X Y = .ok (row.foldl (specStep ops m s X Y) acc) ∧
      row.foldlM (specStepRes ops m s X Y) acc = .ok (row.foldl (specStep ops m s X Y) acc) := by
  intro row
  induction row with
  | nil =>
      intro img img' h _ X Y _ _ acc hacc
      simp [Sprite.frameImageLoop] at h; subst h
      exact ⟨by simpa using hacc, rfl⟩
  | cons hd tl ih =>
      intro img img' h hsz X Y hX hY acc hacc
      obtain ⟨l, c⟩ := hd
      unfold Sprite.frameImageLoop at h
      rw [List.foldl_cons, List.foldlM_cons]
      split at h
      · cases h
      · split at h
        · rename_i hvis
          have h1 : specStep ops m s X Y acc (l, c) = acc := by simp only [specStep, hvis]
          have h2 : specStepRes ops m s X Y acc (l, c) = .ok acc := by simp only [specStepRes, hvis]
          rw [h1, h2, Res.bind_ok]
          exact ih _ _ h hsz X Y hX hY acc hacc
        · rename_i hvis
          split at h
          · rename_i img1 hw
            have hd := writeCel_dims ops m s _ _ _ hw
            obtain ⟨g1, g2⟩ := writeCel_pointwise_full ops m s img img1 c hw hsz X Y hX hY acc hacc
            have h1 : specStep ops m s X Y acc (l, c) = specWriteCel ops m s c X Y acc := by
              simp only [specStep, hvis]
            have h2 : specStepRes ops m s X Y acc (l, c) = .ok (specWriteCel ops m s c X Y acc) := by
              simp only [specStepRes, hvis]; exact g2
            rw [h1, h2, Res.bind_ok]
            exact ih _ _ h (hd.size hsz) X Y (by rw [← hd.1]; exact hX) (by rw [← hd.2.1]; exact hY) _ g1
          · cases h
          · cases h
        · cases h
        · cases h

theorem frameImageLoop_pointwise (s : Sprite) (row : FrameCels Pixels) (img img' : Image)
    (h : s.frameImageLoop ops m row img = .ok img') (hsz : img.px.size = img.w * img.h)
    (X Y : Nat) (hX : X < img.w) (hY : Y < img.h) (acc : RGBA) (hacc : img.get X Y = .ok acc) :
    img'.get X Y = .ok (row.foldl (specStep ops m s X Y) acc) :=
  (frameImageLoop_pointwise_full ops m s row img img' h hsz X Y hX hY acc hacc).1

/-- the same for the specification loop `composeSpec` of C02 -/
theorem composeSpec_pointwise (s : Sprite) : ∀ (row : FrameCels Pixels) (img img' : Image),
    composeSpec ops m s row img = .ok img' → img.px.size = img.w * img.h →
    ∀ (X Y : Nat), X < img.w → Y < img.h → ∀ acc, img.get X Y = .ok acc →
      img'.get X Y = .ok (row.foldl (specStep ops m s X Y) acc) := by
  intro row
  induction row with
  | nil =>
      intro img img' h _ X Y _ _ acc hacc
      simp [composeSpec] at h; subst h
      simpa using hacc
  | cons hd tl ih =>
      intro img img' h hsz X Y hX hY acc hacc
      obtain ⟨l, c⟩ := hd
      unfold composeSpec at h
      rw [List.foldl_cons]
      split at h
      · rename_i hvis
        split at h
        · rename_i img1 hw
          have hd := writeCel_dims ops m s _ _ _ hw
          have hstep : specStep ops m s X Y acc (l, c) = specWriteCel ops m s c X Y acc := by
            simp only [specStep, hvis]
          rw [hstep]
          exact ih _ _ h (hd.size hsz) X Y (by rw [← hd.1]; exact hX) (by rw [← hd.2.1]; exact hY) _
            (writeCel_pointwise ops m s img img1 c hw hsz X Y hX hY acc hacc)
        · cases h
        · cases h
      · rename_i hvis
        have : specStep ops m s X Y acc (l, c) = acc := by simp only [specStep, hvis]
        rw [this]
        exact ih _ _ h hsz X Y hX hY acc hacc
      · cases h
      · cases h

/-- **C02, point-wise**: when the frame image is produced, its pixel at every canvas position
    `(X, Y)` is the specified pixel: the fold, in increasing layer order and starting from the
    transparent pixel, of "blend this cel's pixel at `(X, Y)` if its layer is visible and the
    cel covers `(X, Y)`".  Holds for raw, linked and tilemap cels, all blend modes, both build
    profiles. -/
theorem frameImage_spec (s : Sprite) (f : Nat) (img : Image) (h : s.frameImage ops m f = .ok img)
    (X Y : Nat) (hX : X < s.width.toNat) (hY : Y < s.height.toNat) :
    img.get X Y = .ok (specFramePixel ops m s f X Y) := by
  unfold Sprite.frameImage at h
  unfold specFramePixel specRowPixel
  split at h
  · cases h
  · rename_i row hrow
    rw [hrow]
    exact frameImageLoop_pointwise ops m s row s.canvas img h (canvas_size s) X Y hX hY RGBA.zero
      (canvas_get s hX hY)

/-- **C02, point-wise, failures propagated**: the frame image's pixel equals the monadic fold in
    which a failing blend (or a missing layer) would fail the pixel: in a produced frame image
    no blend of the specification fails, so the "keep the accumulator" default of `blendOr`
    inside `specFramePixel` is never taken -/
theorem frameImage_spec_res (s : Sprite) (f : Nat) (img : Image) (h : s.frameImage ops m f = .ok img)
    (X Y : Nat) (hX : X < s.width.toNat) (hY : Y < s.height.toNat) :
    img.get X Y = specFramePixelRes ops m s f X Y ∧
    specFramePixelRes ops m s f X Y = .ok (specFramePixel ops m s f X Y) := by
  unfold Sprite.frameImage at h
  unfold specFramePixelRes specRowPixelRes specFramePixel specRowPixel
  split at h
  · cases h
  · rename_i row hrow
    rw [hrow]
    obtain ⟨g1, g2⟩ := frameImageLoop_pointwise_full ops m s row s.canvas img h (canvas_size s) X Y
      hX hY RGBA.zero (canvas_get s hX hY)
    exact ⟨g1.trans g2.symm, g2⟩

/-- the same through the composition specification of C02 (`frameImage_compose`) -/
theorem frameImage_spec_compose (s : Sprite) (f : Nat) (row : FrameCels Pixels)
    (hrow : s.cels[f]? = some row) (hlayers : ∀ p ∈ row, p.1 < s.numLayers) (img : Image)
    (h : s.frameImage ops m f = .ok img)
    (X Y : Nat) (hX : X < s.width.toNat) (hY : Y < s.height.toNat) :
    img.get X Y = .ok (specRowPixel ops m s row X Y) := by
  rw [frameImage_compose ops m s f row hrow hlayers] at h
  exact composeSpec_pointwise ops m s row s.canvas img h (canvas_size s) X Y hX hY RGBA.zero
    (canvas_get s hX hY)

/-- a frame with a single visible raw cel: inside the cel rectangle the stored pixel with alpha
    scaled by the opacity product, outside transparent — the frame image agrees with C06 -/
theorem specRowPixel_single_raw (s : Sprite) (l : Nat) (c : RawCel Pixels) (w h : UInt16)
    (px : Pixels) (rgba : Array RGBA) (layer : LayerData) (hvis : s.isVisible l = .ok true)
    (hraw : c.content = .raw w h px) (hrgba : pixelsToRgba s.palette px = .ok rgba)
    (hlayer : s.layers[c.data.layerIndex.toNat]? = some layer) (X Y : Nat) :
    specRowPixel ops m s [(l, c)] X Y =
      if InRect c.data.x.toInt c.data.y.toInt w.toNat h.toNat X Y then
        blendOr ops m layer.blendMode
          (Blend.mulUn8 (Blend.ch layer.opacity) (Blend.ch c.data.opacity)) RGBA.zero
          rgba[((Y : Int) - c.data.y.toInt).toNat * w.toNat + ((X : Int) - c.data.x.toInt).toNat]?
      else RGBA.zero := by
  have hnl : ∀ f, c.content ≠ .linked f := by intro f hf; rw [hraw] at hf; cases hf
  simp only [specRowPixel, List.foldl_cons, List.foldl_nil, specStep, hvis]
  rw [specWriteCel_direct ops m s c hnl, specCel_raw ops m s c w h px rgba layer hraw hrgba hlayer]

end Ase.Proofs.C02
