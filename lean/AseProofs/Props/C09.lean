import Ase.Render
/-
  C09  Layer parents and visibility follow the nesting levels.
-/
namespace Ase.Proofs.C09
open Ase

/-- Spec: the nearest preceding layer with a smaller nesting level; none at level 0. -/
def smaller (levels : Array UInt16) (my : UInt16) (j : Nat) : Bool :=
  match levels[j]? with
  | some l => l < my
  | none => false

def nearestSmaller (levels : Array UInt16) (i : Nat) : Option Nat :=
  match levels[i]? with
  | none => none
  | some my =>
      if my.toNat == 0 then none
      else (List.range i).reverse.find? (smaller levels my)

theorem findParent_eq (levels : Array UInt16) (my : UInt16) :
    ∀ cand, cand ≤ levels.size →
      findParent levels my cand =
        match (List.range cand).reverse.find? (smaller levels my) with
        | some p => .ok p
        | none => .err .invalid := by
  intro cand
  induction cand with
  | zero => intro _; simp [findParent]
  | succ c ih =>
      intro h
      have hc : c < levels.size := by omega
      have hget : levels[c]? = some levels[c] := by simp [hc]
      simp only [findParent, hget, List.range_succ, List.reverse_append, List.reverse_cons,
        List.reverse_nil, List.nil_append, List.singleton_append, List.find?_cons, smaller]
      by_cases hl : levels[c] < my
      · simp [hl]
      · simp [hl]
        have := ih (by omega)
        simpa [smaller] using this


/-- The parent the model computes for layer `id` is the spec's nearest smaller level,
    for every level sequence; the computation fails (with an error value, never a panic)
    exactly when some layer of non-zero level has no preceding layer of smaller level. -/
theorem computeParentsFrom_spec (levels : Array UInt16) :
    ∀ n id, id + n = levels.size →
      (∀ ps, computeParentsFrom levels n id = .ok ps →
        ps = (List.range' id n).map (nearestSmaller levels)) ∧
      (∀ s, computeParentsFrom levels n id ≠ .panic s) := by
  intro n
  induction n with
  | zero => intro id _; simp [computeParentsFrom]
  | succ n ih =>
      intro id h
      have hid : id < levels.size := by omega
      have hget : levels[id]? = some levels[id] := by simp [hid]
      have ih' := ih (id + 1) (by omega)
      have hfp := findParent_eq levels levels[id] id (by omega)
      simp only [computeParentsFrom, hget]
      by_cases h0 : (levels[id]).toNat == 0
      · simp only [h0, if_true]
        constructor
        · intro ps hps
          cases hrest : computeParentsFrom levels n (id + 1) with
          | ok r =>
              rw [hrest] at hps
              simp only [Res.map_ok, Res.ok.injEq] at hps
              subst hps
              have := ih'.1 r hrest
              simp [List.range'_succ, nearestSmaller, hget, h0, this]
          | err e => rw [hrest] at hps; simp at hps
          | panic s => rw [hrest] at hps; simp at hps
        · intro s
          cases hrest : computeParentsFrom levels n (id + 1) with
          | ok r => simp
          | err e => simp
          | panic s' => exact absurd hrest (ih'.2 s')
      · simp only [h0, if_false, Bool.false_eq_true]
        rw [hfp]
        cases hfind : (List.range id).reverse.find? (smaller levels levels[id]) with
        | none => simp
        | some p =>
            simp only
            constructor
            · intro ps hps
              cases hrest : computeParentsFrom levels n (id + 1) with
              | ok r =>
                  rw [hrest] at hps
                  simp only [Res.map_ok, Res.ok.injEq] at hps
                  subst hps
                  have := ih'.1 r hrest
                  simp [List.range'_succ, nearestSmaller, hget, h0, hfind, this]
              | err e => rw [hrest] at hps; simp at hps
              | panic s => rw [hrest] at hps; simp at hps
            · intro s
              cases hrest : computeParentsFrom levels n (id + 1) with
              | ok r => simp
              | err e => simp
              | panic s' => exact absurd hrest (ih'.2 s')


/-- what `nearestSmaller` returns really is the nearest preceding smaller level -/
theorem nearestSmaller_some (levels : Array UInt16) (i p : Nat)
    (h : nearestSmaller levels i = some p) :
    p < i ∧ (∃ my l, levels[i]? = some my ∧ levels[p]? = some l ∧ l < my) ∧
      ∀ j, p < j → j < i → ∀ my l, levels[i]? = some my → levels[j]? = some l → ¬ l < my := by
  unfold nearestSmaller at h
  cases hi : levels[i]? with
  | none => simp [hi] at h
  | some my =>
      simp only [hi] at h
      by_cases h0 : my.toNat == 0
      · simp [h0] at h
      · simp only [h0, Bool.false_eq_true, if_false] at h
        have hmem := List.mem_of_find?_eq_some h
        have hp := List.find?_some h
        simp only [List.mem_reverse, List.mem_range] at hmem
        refine ⟨hmem, ?_, ?_⟩
        · unfold smaller at hp
          cases hpl : levels[p]? with
          | none => simp [hpl] at hp
          | some l => exact ⟨my, l, rfl, rfl, by simpa [hpl] using hp⟩
        · intro j hpj hji my' l hmy hl hlt
          cases hmy
          -- j comes before p in the reversed range, so `find?` would have stopped at j
          have hsm : smaller levels my j = true := by simp [smaller, hl, hlt]
          rw [List.find?_eq_some_iff_append] at h
          obtain ⟨_, as, bs, hsplit, hnone⟩ := h
          have hjmem : j ∈ (List.range i).reverse := by simp [hji]
          rw [hsplit] at hjmem
          rcases List.mem_append.mp hjmem with hja | hjb
          · have := hnone j hja
            simp [hsm] at this
          · rcases List.mem_cons.mp hjb with hjp | hjbs
            · omega
            · -- the reversed range is strictly decreasing, so everything after p is < p
              have hsorted : ((List.range i).reverse).Pairwise (· > ·) := by
                rw [List.pairwise_reverse]
                exact List.pairwise_lt_range.imp (fun h => h)
              rw [hsplit] at hsorted
              have := (List.pairwise_append.mp hsorted).2.1
              have := (List.pairwise_cons.mp this).1 j hjbs
              omega

/-- at level 0 there is no parent -/
theorem nearestSmaller_level0 (levels : Array UInt16) (i : Nat) (my : UInt16)
    (h : levels[i]? = some my) (h0 : my.toNat = 0) : nearestSmaller levels i = none := by
  simp [nearestSmaller, h, h0]

/-- For every level sequence whose first level is 0 (in particular every forest, of any
    depth) the parent computation succeeds. -/
theorem computeParentsFrom_ok (levels : Array UInt16) (hpos : 0 < levels.size)
    (hfirst : (levels[0]'hpos).toNat = 0) :
    ∀ n id, id + n = levels.size → ∃ ps, computeParentsFrom levels n id = .ok ps := by
  intro n
  induction n with
  | zero => intro id _; exact ⟨[], rfl⟩
  | succ n ih =>
      intro id h
      have hid : id < levels.size := by omega
      have hget : levels[id]? = some levels[id] := by simp [hid]
      obtain ⟨r, hr⟩ := ih (id + 1) (by omega)
      simp only [computeParentsFrom, hget]
      by_cases h0 : (levels[id]).toNat == 0
      · simp [h0, hr]
      · simp only [h0, Bool.false_eq_true, if_false]
        rw [findParent_eq levels levels[id] id (by omega)]
        have hidpos : 0 < id := by
          rcases Nat.eq_zero_or_pos id with hz | hz
          · subst hz; simp [hfirst] at h0
          · exact hz
        have hsm : smaller levels levels[id] 0 = true := by
          have h00 : levels[0]? = some (levels[0]'hpos) := by simp [hpos]
          simp only [smaller, h00, decide_eq_true_eq]
          rw [UInt16.lt_iff_toNat_lt, hfirst]
          simp at h0
          omega
        have hsome : ((List.range id).reverse.find? (smaller levels levels[id])).isSome := by
          rw [List.find?_isSome]
          exact ⟨0, by simp [hidpos], hsm⟩
        cases hf : (List.range id).reverse.find? (smaller levels levels[id]) with
        | none => simp [hf] at hsome
        | some p => simp [hr]

/-- **C09 (parents)**: for every layer sequence whose first nesting level is 0, the model's
    `compute_parents` returns, for each layer, exactly the nearest preceding layer with a
    smaller level (none at level 0). -/
theorem parents_spec (layers : Array LayerData) (hpos : 0 < layers.size)
    (hfirst : (layers[0]'hpos).childLevel.toNat = 0) :
    ∃ ps, computeParents layers = .ok ps ∧ ps.size = layers.size ∧
      ∀ i, i < layers.size → ps[i]? = some (nearestSmaller (layers.map (·.childLevel)) i) := by
  have hsz : (layers.map (·.childLevel)).size = layers.size := by simp
  have hpos' : 0 < (layers.map (·.childLevel)).size := by simpa using hpos
  have hfirst' : ((layers.map (·.childLevel))[0]'hpos').toNat = 0 := by simpa using hfirst
  obtain ⟨ps, hps⟩ := computeParentsFrom_ok _ hpos' hfirst' layers.size 0 (by simp)
  have hspec := (computeParentsFrom_spec (layers.map (·.childLevel)) layers.size 0 (by simp)).1 ps hps
  refine ⟨ps.toArray, by simp [computeParents, hps], by simp [hspec], ?_⟩
  intro i hi
  simp [hspec, hi]

/-- the parent computation never panics, whatever the levels are -/
theorem computeParents_noPanic (layers : Array LayerData) : Res.NoPanic (computeParents layers) := by
  intro s h
  unfold computeParents at h
  cases hc : computeParentsFrom (layers.map (·.childLevel)) layers.size 0 with
  | ok r => rw [hc] at h; simp at h
  | err e => rw [hc] at h; simp at h
  | panic s' =>
      exact (computeParentsFrom_spec (layers.map (·.childLevel)) layers.size 0 (by simp)).2 s' hc


/-! ### visibility -/

/-- `Anc parents a i`: `a` is `i` or an ancestor of `i` through the parents table -/
inductive Anc (parents : Array (Option Nat)) : Nat → Nat → Prop where
  | refl (i : Nat) : Anc parents i i
  | step {a p i : Nat} : parents[i]? = some (some p) → Anc parents a p → Anc parents a i

theorem anc_cases {parents : Array (Option Nat)} {a i : Nat} (h : Anc parents a i) :
    a = i ∨ ∃ p, parents[i]? = some (some p) ∧ Anc parents a p := by
  cases h with
  | refl => exact .inl rfl
  | step hp ha => exact .inr ⟨_, hp, ha⟩

def flagOf (s : Sprite) (a : Nat) : Bool :=
  match s.layers[a]? with
  | some l => l.visibleFlag
  | none => false

theorem isVisibleFuel_spec (s : Sprite) (hsz : s.parents.size = s.layers.size)
    (hlt : ∀ i p : Nat, s.parents[i]? = some (some p) → p < i) :
    ∀ fuel i, i < fuel → i < s.layers.size →
      ∃ b, s.isVisibleFuel fuel i = .ok b ∧
        (b = true ↔ ∀ a, Anc s.parents a i → flagOf s a = true) := by
  intro fuel
  induction fuel with
  | zero => intro i h; omega
  | succ fuel ih =>
      intro i hif hi
      have hl : s.layers[i]? = some s.layers[i] := by simp [hi]
      have hpi : i < s.parents.size := by omega
      have hp : s.parents[i]? = some s.parents[i] := by simp [hpi]
      simp only [Sprite.isVisibleFuel, hl]
      by_cases hv : s.layers[i].visibleFlag = true
      · simp only [hv, Bool.not_true, Bool.false_eq_true, if_false, hp]
        cases hpar : s.parents[i] with
        | none =>
            refine ⟨true, rfl, ?_⟩
            simp only [true_iff]
            intro a ha
            rcases anc_cases ha with rfl | ⟨p, hpp, _⟩
            · simp [flagOf, hl, hv]
            · rw [hp, hpar] at hpp; simp at hpp
        | some p =>
            have hpl : p < i := hlt i p (by rw [hp, hpar])
            obtain ⟨b, hb, hiff⟩ := ih p (by omega) (by omega)
            refine ⟨b, hb, ?_⟩
            rw [hiff]
            constructor
            · intro h a ha
              rcases anc_cases ha with rfl | ⟨p', hpp, hap⟩
              · simp [flagOf, hl, hv]
              · rw [hp, hpar] at hpp
                simp only [Option.some.injEq] at hpp
                subst hpp
                exact h a hap
            · intro h a ha
              exact h a (Anc.step (by rw [hp, hpar]) ha)
      · refine ⟨false, by simp [hv], ?_⟩
        simp only [Bool.false_eq_true, false_iff]
        intro h
        have := h i (Anc.refl i)
        simp [flagOf, hl] at this
        exact hv this

/-- **C09 (visibility)**: when every parent has a lower id than its child, `is_visible`
    returns (no panic, no missing fuel) and is true exactly when the visible flag of the layer
    and of all its ancestors is set. -/
theorem isVisible_iff (s : Sprite) (hsz : s.parents.size = s.layers.size)
    (hlt : ∀ i p : Nat, s.parents[i]? = some (some p) → p < i) (i : Nat) (hi : i < s.layers.size) :
    ∃ b, s.isVisible i = .ok b ∧ (b = true ↔ ∀ a, Anc s.parents a i → flagOf s a = true) :=
  isVisibleFuel_spec s hsz hlt (s.layers.size + 1) i (by omega) hi

/-- the parents computed at load time do have lower ids than their children -/
theorem parents_lt (layers : Array LayerData) (ps : Array (Option Nat))
    (h : computeParents layers = .ok ps) :
    ps.size = layers.size ∧ ∀ i p : Nat, ps[i]? = some (some p) → p < i := by
  unfold computeParents at h
  cases hc : computeParentsFrom (layers.map (·.childLevel)) layers.size 0 with
  | err e => rw [hc] at h; simp at h
  | panic s => rw [hc] at h; simp at h
  | ok r =>
      rw [hc] at h
      simp only [Res.map_ok, Res.ok.injEq] at h
      subst h
      have hspec := (computeParentsFrom_spec (layers.map (·.childLevel)) layers.size 0 (by simp)).1 r hc
      subst hspec
      refine ⟨by simp, ?_⟩
      intro i p hip
      simp only [List.getElem?_toArray, List.getElem?_map] at hip
      by_cases hi : i < layers.size
      · simp [hi] at hip
        exact (nearestSmaller_some _ i p hip).1
      · simp [hi] at hip

/-- non-vacuity: a three-layer forest (group, child, sibling) meets the hypotheses -/
example : ∃ ps, computeParents #[
    { flags := 1, name := [], blendMode := 0, opacity := 255, layerType := .group, childLevel := 0, userData := none },
    { flags := 0, name := [], blendMode := 0, opacity := 255, layerType := .image, childLevel := 1, userData := none },
    { flags := 1, name := [], blendMode := 0, opacity := 255, layerType := .image, childLevel := 0, userData := none }]
    = .ok ps ∧ ps = #[none, some 0, none] := ⟨_, by decide +kernel, rfl⟩

end Ase.Proofs.C09
