import AseProofs.Lemmas.RasterSpec
import AseProofs.Props.C08
import AseProofs.Props.C17
/-
  C08 (point-wise)  A tilemap cel's image shows, at each canvas position, the pixel of the tile
  the stored map holds for the covering tile — the tile `Tilemap::tile` reports.
-/
namespace Ase.Proofs.C08
open Ase Ase.Proofs

variable {F : Type} (ops : FOps F) (m : Profile)

/-! ### one tile, all tiles (explicit tile coordinates) -/

/-- **one tile**: the `tw × th` tile with pixels `tp` drawn at `(bx, by_)`: inside its rectangle
    the new pixel is `blend mode old tp[(Y - by_) * tw + (X - bx)] op`, outside unchanged -/
theorem writeTilePixels_pointwise (mode : Nat) (op : UInt8) (tp : Array RGBA) (tw th : Nat)
    (bx by_ : Int) (htw : 0 < tw) (img img' : Image)
    (h : Sprite.writeTilePixels ops m mode op tp tw bx by_ (tw * th) 0 img = .ok img')
    (hsz : img.px.size = img.w * img.h) (X Y : Nat) (hX : X < img.w) (hY : Y < img.h) :
    (InRect bx by_ tw th X Y →
      ∃ old p v, img.get X Y = .ok old ∧
        tp[((Y : Int) - by_).toNat * tw + ((X : Int) - bx).toNat]? = some p ∧
        Blend.blend ops m mode old p op = .ok v ∧ img'.get X Y = .ok v) ∧
    (¬ InRect bx by_ tw th X Y → img'.get X Y = img.get X Y) :=
  writeTilePixels_spec ops m mode op tp tw th bx by_ htw img img' h hsz X Y hX hY

/-- the rectangle of the stored tile `(tx, ty)` of a map drawn at `(cx, cy)` -/
def InTile (cx cy : Int) (tw th tx ty X Y : Nat) : Prop :=
  InRect (((tx * tw : Nat) : Int) + cx) (((ty * th : Nat) : Int) + cy) tw th X Y

/-- **tiles do not overlap**: a canvas position lies in at most one tile rectangle -/
theorem tile_unique {cx cy : Int} {tw th tx ty tx' ty' X Y : Nat} (htw : 0 < tw) (hth : 0 < th)
    (h : InTile cx cy tw th tx ty X Y) (h' : InTile cx cy tw th tx' ty' X Y) :
    tx = tx' ∧ ty = ty' := by
  obtain ⟨_, _, a, b⟩ := (inTile_iff htw hth).mp h
  obtain ⟨_, _, a', b'⟩ := (inTile_iff htw hth).mp h'
  exact ⟨a.symm.trans a', b.symm.trans b'⟩

theorem inMap_iff_exists {cx cy : Int} {tw th mw mh X Y : Nat} (htw : 0 < tw) (hth : 0 < th) :
    InMap cx cy tw th mw mh X Y ↔ ∃ tx ty, tx < mw ∧ ty < mh ∧ InTile cx cy tw th tx ty X Y := by
  constructor
  · intro ⟨h1, h2, h3, h4⟩
    exact ⟨_, _, h3, h4, (inTile_iff htw hth).mpr ⟨h1, h2, rfl, rfl⟩⟩
  · intro ⟨tx, ty, h1, h2, h3⟩
    obtain ⟨a, b, c, d⟩ := (inTile_iff htw hth).mp h3
    exact ⟨a, b, by rw [c]; exact h1, by rw [d]; exact h2⟩

theorem tileSrc_some {tiles : Array UInt32} {pixels : Array RGBA} {tw th mw : Nat} {cx cy : Int}
    {X Y : Nat} {p : RGBA} (h : tileSrc tiles pixels tw th mw cx cy X Y = some p) :
    ∃ id, tiles[tileOf cx cy tw th mw X Y]? = some id ∧
      pixels[tw * th * id.toNat + (((Y : Int) - cy).toNat % th) * tw + ((X : Int) - cx).toNat % tw]?
        = some p := by
  unfold tileSrc at h
  split at h
  · cases h
  · rename_i id hid; exact ⟨id, hid, h⟩

/-- **all tiles** (`writeTiles` over the whole stored `mapW × mapH` map at `(cx, cy)`): a canvas
    position `(X, Y)` in the rectangle of the stored tile `(tx, ty)` receives
    `blend mode old tilesetPixels[id*tw*th + (Y - cy - ty*th)*tw + (X - cx - tx*tw)] op` with
    `id = tiles[ty * mapW + tx]`; positions in no tile rectangle are unchanged.  By `tile_unique`
    each position is written at most once. -/
theorem writeTiles_pointwise (mode : Nat) (op : UInt8) (t : TilemapData) (pixels : Array RGBA)
    (tw th : Nat) (cx cy : Int) (htw : 0 < tw) (hth : 0 < th) (img img' : Image)
    (h : Sprite.writeTiles ops m mode op t pixels tw th cx cy
          (t.width.toNat * t.height.toNat) 0 img = .ok img')
    (hsz : img.px.size = img.w * img.h) (X Y : Nat) (hX : X < img.w) (hY : Y < img.h) :
    (∀ tx ty, tx < t.width.toNat → ty < t.height.toNat → InTile cx cy tw th tx ty X Y →
      ∃ id old p v, t.tiles[ty * t.width.toNat + tx]? = some id ∧ img.get X Y = .ok old ∧
        pixels[tw * th * id.toNat +
          ((Y : Int) - (((ty * th : Nat) : Int) + cy)).toNat * tw +
          ((X : Int) - (((tx * tw : Nat) : Int) + cx)).toNat]? = some p ∧
        Blend.blend ops m mode old p op = .ok v ∧ img'.get X Y = .ok v) ∧
    ((∀ tx ty, tx < t.width.toNat → ty < t.height.toNat → ¬ InTile cx cy tw th tx ty X Y) →
      img'.get X Y = img.get X Y) := by
  have hsp := writeTiles_spec ops m mode op t pixels tw th cx cy htw hth img img' h hsz X Y hX hY
  constructor
  · intro tx ty htx hty hin
    have hmap : InMap cx cy tw th t.width.toNat t.height.toNat X Y :=
      (inMap_iff_exists htw hth).mpr ⟨tx, ty, htx, hty, hin⟩
    obtain ⟨old, p, v, h1, h2, h3, h4⟩ := hsp.1 hmap
    obtain ⟨id, hid, hp⟩ := tileSrc_some h2
    obtain ⟨_, _, a, b⟩ := (inTile_iff htw hth).mp hin
    obtain ⟨e1, e2⟩ := inTile_offsets htw hth hin
    refine ⟨id, old, p, v, ?_, h1, ?_, h3, h4⟩
    · unfold tileOf at hid; rw [a, b] at hid; exact hid
    · rw [e1, e2]; exact hp
  · intro hnone
    apply hsp.2
    intro hmap
    obtain ⟨tx, ty, h1, h2, h3⟩ := (inMap_iff_exists htw hth).mp hmap
    exact hnone tx ty h1 h2 h3

/-! ### the image of a tilemap cel -/

/-- a tilemap cel is drawn by `writeTilemapCel` with its layer's tileset, mode and opacity -/
theorem writeCel_tilemap (s : Sprite) (img : Image) (c : RawCel Pixels) (t : TilemapData)
    (layer : LayerData) (tsid : UInt32) (ts : Tileset Pixels) (px : Pixels) (rgba : Array RGBA)
    (hcontent : c.content = .tilemap t)
    (hlayer : s.layers[c.data.layerIndex.toNat]? = some layer)
    (hlt : layer.layerType = .tilemap tsid) (hts : s.tileset? tsid.toNat = some ts)
    (hpx : ts.pixels = some px) (hrgba : pixelsToRgba s.palette px = .ok rgba) :
    s.writeCel ops m img c
      = Sprite.writeTilemapCel ops m img c.data t ts rgba layer.blendMode layer.opacity := by
  simp only [Sprite.writeCel, hcontent, Sprite.writeCelDirect, hlayer, hlt, hts, hpx, hrgba]

/-- **tilemap cel image** (any pixel offset): the position `(X, Y)` covered by the stored tile
    `((X - cx) / tw, (Y - cy) / th)` shows pixel `((Y - cy) mod th, (X - cx) mod tw)` of the
    tileset tile whose id the stored map holds there, alpha scaled by the opacity product (in
    every blend mode); uncovered positions are fully transparent -/
theorem tilemapCelImage_spec (s : Sprite) (f l : Nat) (c : RawCel Pixels) (t : TilemapData)
    (layer : LayerData) (tsid : UInt32) (ts : Tileset Pixels) (px : Pixels) (rgba : Array RGBA)
    (img : Image)
    (hc : s.cel f l = .ok (some c)) (hcontent : c.content = .tilemap t)
    (hlayer : s.layers[c.data.layerIndex.toNat]? = some layer)
    (hlt : layer.layerType = .tilemap tsid) (hts : s.tileset? tsid.toNat = some ts)
    (hpx : ts.pixels = some px) (hrgba : pixelsToRgba s.palette px = .ok rgba)
    (htw : 0 < ts.tileW.toNat) (hth : 0 < ts.tileH.toNat)
    (himg : s.celImage ops m f l = .ok img)
    (X Y : Nat) (hX : X < s.width.toNat) (hY : Y < s.height.toNat) :
    (InMap c.data.x.toInt c.data.y.toInt ts.tileW.toNat ts.tileH.toNat t.width.toNat t.height.toNat X Y →
      ∃ id p,
        t.tiles[tileOf c.data.x.toInt c.data.y.toInt ts.tileW.toNat ts.tileH.toNat t.width.toNat X Y]?
          = some id ∧
        rgba[ts.tileW.toNat * ts.tileH.toNat * id.toNat +
              (((Y : Int) - c.data.y.toInt).toNat % ts.tileH.toNat) * ts.tileW.toNat +
              ((X : Int) - c.data.x.toInt).toNat % ts.tileW.toNat]? = some p ∧
        img.get X Y = .ok ⟨p.r, p.g, p.b,
          Blend.mulUn8 (Blend.ch p.a)
            (Blend.ch (Blend.mulUn8 (Blend.ch layer.opacity) (Blend.ch c.data.opacity)))⟩) ∧
    (¬ InMap c.data.x.toInt c.data.y.toInt ts.tileW.toNat ts.tileH.toNat t.width.toNat t.height.toNat X Y →
      img.get X Y = .ok RGBA.zero) := by
  have hw : Sprite.writeTilemapCel ops m s.canvas c.data t ts rgba layer.blendMode layer.opacity
      = .ok img := by
    rw [← writeCel_tilemap ops m s s.canvas c t layer tsid ts px rgba hcontent hlayer hlt hts hpx hrgba]
    simpa only [Sprite.celImage, hc] using himg
  have hXc : X < s.canvas.w := hX
  have hYc : Y < s.canvas.h := hY
  have hsp := writeTilemapCel_spec ops m s.canvas img c.data t ts rgba layer.blendMode layer.opacity
    htw hth hw (canvas_size s) X Y hXc hYc
  have hzero := canvas_get s hXc hYc
  refine ⟨fun hin => ?_, fun hout => ?_⟩
  · obtain ⟨old, p, v, h1, h2, h3, h4⟩ := hsp.1 hin
    rw [hzero] at h1; cases h1
    obtain ⟨id, hid, hp⟩ := tileSrc_some h2
    rw [C17.over_transparent ops m layer.blendMode RGBA.zero p _ rfl] at h3
    cases h3
    exact ⟨id, p, hid, hp, h4⟩
  · rw [hsp.2 hout]; exact hzero

/-! ### agreement with the tile lookup -/

/-- what a successful `tilemap(layer, frame)` tells about the sprite -/
theorem tilemap_facts (s : Sprite) (l f : Nat) (v : TilemapView) (h : s.tilemap l f = .ok (some v)) :
    ∃ ld tsid, s.layers[l]? = some ld ∧ ld.layerType = .tilemap tsid ∧
      s.tileset? tsid.toNat = some v.tileset ∧ s.cel f l = .ok (some v.cel) ∧
      v.cel.content = .tilemap v.data ∧ 0 < v.tileset.tileW.toNat ∧ 0 < v.tileset.tileH.toNat := by
  unfold Sprite.tilemap at h
  split at h
  · cases h
  · split at h
    · cases h
    · rename_i ld hld
      split at h
      · rename_i tsid hlt
        split at h
        · cases h
        · rename_i ts hts
          split at h
          · rename_i c hc
            split at h
            · rename_i t hcont
              dsimp only at h
              split at h
              · cases h
              · rename_i hz
                split at h
                · cases h
                  simp only [Bool.or_eq_true, beq_iff_eq, not_or] at hz
                  exact ⟨ld, tsid, hld, hlt, hts, hc, hcont, Nat.pos_of_ne_zero hz.1, Nat.pos_of_ne_zero hz.2⟩
                · cases h
            · cases h
          · cases h
          · cases h
          · cases h
      · cases h

/-- tile-aligned offsets: dividing the canvas coordinate by the tile size commutes with
    subtracting the offset -/
theorem aligned_div (tw X : Nat) (ox : Int) (htw : 0 < tw) :
    (ox * (tw : Int) ≤ (X : Int) ↔ 0 ≤ ((X / tw : Nat) : Int) - ox) ∧
    (ox * (tw : Int) ≤ (X : Int) →
      ((X : Int) - ox * (tw : Int)).toNat / tw = (((X / tw : Nat) : Int) - ox).toNat ∧
      ((X : Int) - ox * (tw : Int)).toNat % tw = X % tw) := by
  have hdm := Nat.div_add_mod X tw
  have hr := Nat.mod_lt X htw
  generalize X / tw = q at hdm ⊢
  generalize X % tw = r at hdm hr ⊢
  have hXi : (X : Int) = (q : Int) * (tw : Int) + (r : Int) := by
    subst hdm; simp [Int.mul_comm]
  generalize hk : (q : Int) - ox = k
  have hox : ox * (tw : Int) = (q : Int) * (tw : Int) - k * (tw : Int) := by
    rw [← Int.sub_mul]; congr 1; omega
  have hdiff : (X : Int) - ox * (tw : Int) = k * (tw : Int) + (r : Int) := by omega
  by_cases hk0 : 0 ≤ k
  · obtain ⟨kn, rfl⟩ := Int.eq_ofNat_of_zero_le hk0
    have hnn : (0 : Int) ≤ ((kn * tw : Nat) : Int) := Int.natCast_nonneg _
    have hcast : ((kn * tw : Nat) : Int) = (kn : Int) * (tw : Int) := by simp
    have hle : ox * (tw : Int) ≤ (X : Int) := by omega
    refine ⟨⟨fun _ => hk0, fun _ => hle⟩, fun _ => ?_⟩
    have hd : ((X : Int) - ox * (tw : Int)).toNat = kn * tw + r := by omega
    rw [hd]
    obtain ⟨a, b⟩ := divmod_unique hr (rfl : kn * tw + r = kn * tw + r)
    exact ⟨by rw [a]; simp, b⟩
  · have hk1 : k ≤ -1 := by omega
    have hmul : k * (tw : Int) ≤ (-1) * (tw : Int) :=
      Int.mul_le_mul_of_nonneg_right hk1 (Int.natCast_nonneg _)
    have hlt : ¬ ox * (tw : Int) ≤ (X : Int) := by omega
    exact ⟨⟨fun h => absurd h hlt, fun h => absurd h hk0⟩, fun h => absurd h hlt⟩

/-- **C08, point-wise**: for a tilemap whose cel offset is tile-aligned (`x = ox * tw`,
    `y = oy * th`), the image of the tilemap cel shows at every canvas position `(X, Y)` the
    pixel `(Y mod th, X mod tw)` of the tile that `Tilemap::tile(X / tw, Y / th)` reports (alpha
    scaled by the opacity product, in every blend mode) when the lookup falls into the stored
    area; outside the stored area the lookup reports the empty tile `0` and the image is fully
    transparent. -/
theorem tilemapImage_spec (s : Sprite) (l f : Nat) (v : TilemapView) (ld : LayerData)
    (px : Pixels) (rgba : Array RGBA) (img : Image) (ox oy : Int)
    (hv : s.tilemap l f = .ok (some v)) (hli : v.cel.data.layerIndex.toNat = l)
    (hld : s.layers[l]? = some ld)
    (hpx : v.tileset.pixels = some px) (hrgba : pixelsToRgba s.palette px = .ok rgba)
    (hsize : v.data.tiles.size = v.data.width.toNat * v.data.height.toNat)
    (hox : v.cel.data.x.toInt = ox * (v.tileset.tileW.toNat : Int))
    (hoy : v.cel.data.y.toInt = oy * (v.tileset.tileH.toNat : Int))
    (himg : s.celImage ops m f l = .ok img)
    (X Y : Nat) (hX : X < s.width.toNat) (hY : Y < s.height.toNat) :
    ∃ id, v.tile (X / v.tileset.tileW.toNat) (Y / v.tileset.tileH.toNat) = .ok id ∧
      ((0 ≤ ((X / v.tileset.tileW.toNat : Nat) : Int) - ox ∧
        ((X / v.tileset.tileW.toNat : Nat) : Int) - ox < (v.data.width.toNat : Int) ∧
        0 ≤ ((Y / v.tileset.tileH.toNat : Nat) : Int) - oy ∧
        ((Y / v.tileset.tileH.toNat : Nat) : Int) - oy < (v.data.height.toNat : Int)) →
        ∃ p, rgba[v.tileset.tileW.toNat * v.tileset.tileH.toNat * id +
                (Y % v.tileset.tileH.toNat) * v.tileset.tileW.toNat + X % v.tileset.tileW.toNat]?
              = some p ∧
          img.get X Y = .ok ⟨p.r, p.g, p.b,
            Blend.mulUn8 (Blend.ch p.a)
              (Blend.ch (Blend.mulUn8 (Blend.ch ld.opacity) (Blend.ch v.cel.data.opacity)))⟩) ∧
      (¬ (0 ≤ ((X / v.tileset.tileW.toNat : Nat) : Int) - ox ∧
        ((X / v.tileset.tileW.toNat : Nat) : Int) - ox < (v.data.width.toNat : Int) ∧
        0 ≤ ((Y / v.tileset.tileH.toNat : Nat) : Int) - oy ∧
        ((Y / v.tileset.tileH.toNat : Nat) : Int) - oy < (v.data.height.toNat : Int)) →
        id = 0 ∧ img.get X Y = .ok RGBA.zero) := by
  obtain ⟨ld', tsid, hld', hlt, hts, hc, hcont, htw, hth⟩ := tilemap_facts s l f v hv
  rw [hld] at hld'; cases hld'
  have hlayer : s.layers[v.cel.data.layerIndex.toNat]? = some ld := by rw [hli]; exact hld
  have hsp := tilemapCelImage_spec ops m s f l v.cel v.data ld tsid v.tileset px rgba img hc hcont
    hlayer hlt hts hpx hrgba htw hth himg X Y hX hY
  have hofs : v.tileOffsets = .ok (ox, oy) := by
    rw [tile_offsets v (by omega) (by omega), hox, hoy,
      Int.mul_tdiv_cancel _ (by omega), Int.mul_tdiv_cancel _ (by omega)]
  rw [hox, hoy] at hsp
  obtain ⟨ax1, ax2⟩ := aligned_div v.tileset.tileW.toNat X ox htw
  obtain ⟨ay1, ay2⟩ := aligned_div v.tileset.tileH.toNat Y oy hth
  by_cases hin : 0 ≤ ((X / v.tileset.tileW.toNat : Nat) : Int) - ox ∧
      ((X / v.tileset.tileW.toNat : Nat) : Int) - ox < (v.data.width.toNat : Int) ∧
      0 ≤ ((Y / v.tileset.tileH.toNat : Nat) : Int) - oy ∧
      ((Y / v.tileset.tileH.toNat : Nat) : Int) - oy < (v.data.height.toNat : Int)
  · obtain ⟨i1, i2, i3, i4⟩ := hin
    obtain ⟨dx1, dx2⟩ := ax2 (ax1.mpr i1)
    obtain ⟨dy1, dy2⟩ := ay2 (ay1.mpr i3)
    have hmap : InMap (ox * (v.tileset.tileW.toNat : Int)) (oy * (v.tileset.tileH.toNat : Int))
        v.tileset.tileW.toNat v.tileset.tileH.toNat v.data.width.toNat v.data.height.toNat X Y := by
      refine ⟨ax1.mpr i1, ay1.mpr i3, ?_, ?_⟩
      · rw [dx1]; omega
      · rw [dy1]; omega
    obtain ⟨id, p, hid, hp, hget⟩ := hsp.1 hmap
    obtain ⟨id', hid', htile⟩ := tile_inside v _ _ ox oy hofs hsize i1 i3 i2 i4
    unfold tileOf at hid
    rw [dx1, dy1] at hid
    rw [hid] at hid'; cases hid'
    rw [dx2, dy2] at hp
    exact ⟨id.toNat, htile, fun _ => ⟨p, hp, hget⟩, fun hc => absurd ⟨i1, i2, i3, i4⟩ hc⟩
  · refine ⟨0, tile_outside_empty v _ _ ox oy hofs (by omega), fun hc => absurd hc hin, fun _ => ⟨rfl, ?_⟩⟩
    apply hsp.2
    intro ⟨m1, m2, m3, m4⟩
    obtain ⟨dx1, _⟩ := ax2 m1
    obtain ⟨dy1, _⟩ := ay2 m2
    rw [dx1] at m3; rw [dy1] at m4
    have := ax1.mp m1
    have := ay1.mp m2
    omega

end Ase.Proofs.C08
