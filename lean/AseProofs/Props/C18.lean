import Ase.Util
import AseProofs.Lemmas.Util
/-
  C18  The optional utilities (`src/util.rs`).

  * `extrude_spec`   : border extrusion of a `w x h` image (`w, h ≥ 1`) is the
                       `(w+2) x (h+2)` image of clamped look-ups.
  * `mapper_spec`    : the palette mapper, for EVERY iteration order of the palette's
                       hash map.
  * `toIndexed_spec` : the indexed-image conversion.
-/
namespace Ase.Proofs.C18
open Ase Ase.Util Ase.Proofs.UtilLemmas

/-! ## extrude_border -/

/-- what one loop iteration appends for source row `r` -/
def rowArr (px : Array RGBA) (w r : Nat) : Array RGBA :=
  px.extract (r * w) (r * w + 1) ++ px.extract (r * w) (r * w + w) ++
    px.extract (r * w + w - 1) (r * w + w)

theorem row_bound {w h r : Nat} (hr : r < h) : r * w + w ≤ w * h := by
  have : (r + 1) * w ≤ h * w := Nat.mul_le_mul_right w hr
  rw [Nat.succ_mul] at this
  rw [Nat.mul_comm w h]; exact this

theorem rowArr_size (px : Array RGBA) (w h r : Nat) (hsz : px.size = w * h) (hw : 1 ≤ w)
    (hr : r < h) : (rowArr px w r).size = w + 2 := by
  have hb := row_bound (w := w) hr
  simp only [rowArr, Array.size_append, Array.size_extract]
  omega

theorem rowArr_get (px : Array RGBA) (w h r x : Nat) (hsz : px.size = w * h) (hw : 1 ≤ w)
    (hr : r < h) (hx : x < w + 2) :
    (rowArr px w r)[x]? = px[r * w + min (x - 1) (w - 1)]? := by
  have hb := row_bound (w := w) hr
  simp only [rowArr, Array.getElem?_append, Array.size_append, Array.size_extract,
    Array.getElem?_extract]
  repeat' split
  all_goals first | (congr 1; omega) | (exfalso; omega)

/-- The loop never panics on in-range rows and appends exactly the rows `rowArr`. -/
theorem extrudeLoop_ok (px : Array RGBA) (w h : Nat) (hsz : px.size = w * h) (hw : 1 ≤ w) :
    ∀ (rows : List Nat), (∀ r ∈ rows, r < h) → ∀ (data : Array RGBA),
      ∃ out, extrudeLoop px w rows data = .ok out ∧
        out.toList = data.toList ++ rows.flatMap (fun r => (rowArr px w r).toList) := by
  intro rows
  induction rows with
  | nil => intro _ data; exact ⟨data, rfl, by simp⟩
  | cons r rest ih =>
      intro hrows data
      have hr : r < h := hrows r (by simp)
      have hb := row_bound (w := w) hr
      have hs1 : slice px (r * w) (r * w + 1) = .ok (px.extract (r * w) (r * w + 1)) := by
        unfold slice; rw [if_pos]; omega
      have hs2 : slice px (r * w) (r * w + w) = .ok (px.extract (r * w) (r * w + w)) := by
        unfold slice; rw [if_pos]; omega
      have hs3 : slice px (r * w + w - 1) (r * w + w)
          = .ok (px.extract (r * w + w - 1) (r * w + w)) := by
        unfold slice; rw [if_pos]; omega
      obtain ⟨out, hout, hlist⟩ := ih (fun q hq => hrows q (by simp [hq]))
        (data ++ px.extract (r * w) (r * w + 1) ++ px.extract (r * w) (r * w + w) ++
          px.extract (r * w + w - 1) (r * w + w))
      refine ⟨out, ?_, ?_⟩
      · simp only [extrudeLoop, hs1, hs2, hs3]
        exact hout
      · rw [hlist]
        simp only [rowArr, Array.toList_append, List.flatMap_cons, List.append_assoc]

theorem rowIndices_length (h : Nat) : (rowIndices h).length = h + 2 := by
  simp [rowIndices]

theorem rowIndices_lt (h : Nat) (hh : 1 ≤ h) : ∀ r ∈ rowIndices h, r < h := by
  intro r hr
  simp only [rowIndices, List.mem_cons, List.mem_append, List.mem_range, List.mem_nil_iff,
    or_false] at hr
  omega

theorem rowIndices_get (h y : Nat) (hh : 1 ≤ h) (hy : y < h + 2) :
    (rowIndices h)[y]? = some (min (y - 1) (h - 1)) := by
  unfold rowIndices
  cases y with
  | zero => simp
  | succ y =>
      simp only [List.getElem?_cons_succ, List.getElem?_append, List.length_range]
      by_cases hlt : y < h
      · rw [if_pos hlt, List.getElem?_range hlt]
        congr 1; omega
      · rw [if_neg hlt]
        have : y - h = 0 := by omega
        rw [this]
        simp only [List.getElem?_cons_zero]
        congr 1; omega

/-- C18, extrusion: on a well-formed `w x h` image with `w, h ≥ 1` the function succeeds;
    the result is `(w+2) x (h+2)` and its pixel `(x, y)` is the input pixel at
    `(clamp(x-1, 0, w-1), clamp(y-1, 0, h-1))` (natural subtraction is the lower clamp). -/
theorem extrude_spec (img : Image) (hsz : img.px.size = img.w * img.h)
    (hw : 1 ≤ img.w) (hh : 1 ≤ img.h) :
    ∃ out, extrudeBorder img = .ok out ∧ out.w = img.w + 2 ∧ out.h = img.h + 2 ∧
      out.px.size = (img.w + 2) * (img.h + 2) ∧
      ∀ x y, x < img.w + 2 → y < img.h + 2 →
        out.px[y * (img.w + 2) + x]? =
          img.px[min (y - 1) (img.h - 1) * img.w + min (x - 1) (img.w - 1)]? := by
  obtain ⟨data, hloop, hlist⟩ :=
    extrudeLoop_ok img.px img.w img.h hsz hw (rowIndices img.h) (rowIndices_lt img.h hh) #[]
  simp only [List.nil_append] at hlist
  have hrowlen : ∀ r ∈ rowIndices img.h, ((fun r => (rowArr img.px img.w r).toList) r).length
      = img.w + 2 := by
    intro r hr
    simp only [Array.length_toList]
    exact rowArr_size img.px img.w img.h r hsz hw (rowIndices_lt img.h hh r hr)
  have hsize : data.size = (img.w + 2) * (img.h + 2) := by
    rw [← Array.length_toList, hlist,
      length_flatMap_uniform _ (img.w + 2) _ hrowlen, rowIndices_length, Nat.mul_comm]
  have hnz : ¬ (img.w = 0 ∨ img.h = 0) := by omega
  refine ⟨⟨img.w + 2, img.h + 2, data⟩, ?_, rfl, rfl, hsize, ?_⟩
  · unfold extrudeBorder
    rw [if_neg hnz, hloop]
    simp only [Image.fromRaw]
    rw [if_neg (by omega), Array.extract_eq_self_of_le (by omega)]
  · intro x y hx hy
    show data[y * (img.w + 2) + x]? = _
    rw [← Array.getElem?_toList, hlist,
      getElem?_flatMap_uniform _ (img.w + 2) _ hrowlen y x hx,
      rowIndices_get img.h y hh hy, Option.bind_some, Array.getElem?_toList]
    exact rowArr_get img.px img.w img.h _ x hsz hw (by omega) hx

/-- The clamped source position is inside the input image, so the right-hand side of
    `extrude_spec` is always an actual pixel. -/
theorem clamp_in_range (img : Image) (hsz : img.px.size = img.w * img.h)
    (hw : 1 ≤ img.w) (hh : 1 ≤ img.h) (x y : Nat) :
    min (y - 1) (img.h - 1) * img.w + min (x - 1) (img.w - 1) < img.px.size := by
  have hr : min (y - 1) (img.h - 1) < img.h := by omega
  have := row_bound (w := img.w) hr
  omega

/-- `extrude_spec` through the model's pixel accessor `Image.get`. -/
theorem extrude_spec_get (img : Image) (hsz : img.px.size = img.w * img.h)
    (hw : 1 ≤ img.w) (hh : 1 ≤ img.h) :
    ∃ out, extrudeBorder img = .ok out ∧
      ∀ x y, x < img.w + 2 → y < img.h + 2 →
        out.get x y = img.get (min (x - 1) (img.w - 1)) (min (y - 1) (img.h - 1)) ∧
        ∃ c, out.get x y = .ok c := by
  obtain ⟨out, hout, hw', hh', _, hpx⟩ := extrude_spec img hsz hw hh
  refine ⟨out, hout, ?_⟩
  intro x y hx hy
  have h1 : (x < out.w && y < out.h) = true := by simp [hw', hh', hx, hy]
  have h2 : (min (x - 1) (img.w - 1) < img.w && min (y - 1) (img.h - 1) < img.h) = true := by
    simp only [Bool.and_eq_true, decide_eq_true_eq]; omega
  have hget : out.get x y
      = img.get (min (x - 1) (img.w - 1)) (min (y - 1) (img.h - 1)) := by
    unfold Image.get
    rw [if_pos h1, if_pos h2, hw']
    simp only [Array.getD_eq_getD_getElem?, hpx x y hx hy]
  exact ⟨hget, by unfold Image.get; rw [if_pos h1]; exact ⟨_, rfl⟩⟩

/-- For `w = 0` or `h = 0` the model reports the Rust panic. -/
theorem extrude_degenerate (img : Image) (h0 : img.w = 0 ∨ img.h = 0) :
    extrudeBorder img = .panic .sliceRange := by
  unfold extrudeBorder; rw [if_pos h0]

/-! ## PaletteMapper -/

/-- the entry has the RGB value `(r, g, b)` (alpha is ignored by the mapper) -/
def SameRGB (e : PalEntry) (r g b : UInt8) : Prop :=
  e.rgba.r = r ∧ e.rgba.g = g ∧ e.rgba.b = b

instance (e : PalEntry) (r g b : UInt8) : Decidable (SameRGB e r g b) := by
  unfold SameRGB; exact inferInstance

/-- The map built by `PaletteMapper::new`, looked up at a colour: the value inserted for
    the LAST pair of the iteration order that has this colour. -/
theorem new_map_get (order : List (Nat × PalEntry)) (opts : MappingOptions) (r g b : UInt8) :
    assocGet? (colorKey r g b) (PaletteMapper.new order opts).map =
      match order.reverse.find?
          (fun p => colorKey p.2.rgba.r p.2.rgba.g p.2.rgba.b == colorKey r g b) with
      | some p => some (mapValue opts p.1)
      | none => none := by
  have h := assocGet?_foldl_insert
    (fun p : Nat × PalEntry => colorKey p.2.rgba.r p.2.rgba.g p.2.rgba.b)
    (fun p : Nat × PalEntry => mapValue opts p.1) (colorKey r g b) order []
  have hmap : (PaletteMapper.new order opts).map = order.foldl (fun m p =>
      assocInsert (colorKey p.2.rgba.r p.2.rgba.g p.2.rgba.b) (mapValue opts p.1) m) [] := rfl
  rw [hmap, h]
  generalize order.reverse.find?
    (fun p => colorKey p.2.rgba.r p.2.rgba.g p.2.rgba.b == colorKey r g b) = o
  cases o <;> rfl

/-- exact behaviour of `lookup` on an opaque colour, in terms of the iteration order -/
theorem lookup_opaque_eq (order : List (Nat × PalEntry)) (opts : MappingOptions) (r g b : UInt8) :
    (PaletteMapper.new order opts).lookup r g b 255 =
      match order.reverse.find?
          (fun p => colorKey p.2.rgba.r p.2.rgba.g p.2.rgba.b == colorKey r g b) with
      | some p => mapValue opts p.1
      | none => opts.failure := by
  have h := new_map_get order opts r g b
  unfold PaletteMapper.lookup
  rw [if_neg (by decide), h]
  cases order.reverse.find?
      (fun p => colorKey p.2.rgba.r p.2.rgba.g p.2.rgba.b == colorKey r g b) with
  | some p => rfl
  | none => rfl

/-- (a) any alpha other than 255: the configured transparent index, or the failure index
    if none is configured.  Holds for every order and palette. -/
theorem mapper_transparent (order : List (Nat × PalEntry)) (opts : MappingOptions)
    (r g b alpha : UInt8) (ha : alpha ≠ 255) :
    (PaletteMapper.new order opts).lookup r g b alpha = opts.transparent.getD opts.failure := by
  unfold PaletteMapper.lookup
  rw [if_pos (by simpa using ha)]
  rfl

/-- (b) opaque colour that no entry of the iteration order has: the failure index. -/
theorem mapper_absent (order : List (Nat × PalEntry)) (opts : MappingOptions) (r g b : UInt8)
    (hno : ∀ p ∈ order, ¬ SameRGB p.2 r g b) :
    (PaletteMapper.new order opts).lookup r g b 255 = opts.failure := by
  rw [lookup_opaque_eq]
  have : order.reverse.find?
      (fun p => colorKey p.2.rgba.r p.2.rgba.g p.2.rgba.b == colorKey r g b) = none := by
    rw [List.find?_eq_none]
    intro p hp hkey
    simp only [beq_iff_eq, colorKey_inj] at hkey
    exact hno p (by simpa using hp) hkey
  rw [this]

/-- (c/d) opaque colour that some entry has: the value inserted for some entry of the
    order with this RGB (its key as `u8` if the key is below 256, else the failure index). -/
theorem mapper_present (order : List (Nat × PalEntry)) (opts : MappingOptions) (r g b : UInt8)
    (hsome : ∃ p ∈ order, SameRGB p.2 r g b) :
    ∃ p ∈ order, SameRGB p.2 r g b ∧
      (PaletteMapper.new order opts).lookup r g b 255 = mapValue opts p.1 := by
  rw [lookup_opaque_eq]
  cases hfind : order.reverse.find?
      (fun p => colorKey p.2.rgba.r p.2.rgba.g p.2.rgba.b == colorKey r g b) with
  | some p =>
      have hmem := List.mem_of_find?_eq_some hfind
      have hp := List.find?_some hfind
      simp only [beq_iff_eq, colorKey_inj] at hp
      exact ⟨p, by simpa using hmem, hp, rfl⟩
  | none =>
      exfalso
      rw [List.find?_eq_none] at hfind
      obtain ⟨p, hp, hrgb⟩ := hsome
      apply hfind p (by simpa using hp)
      simp only [beq_iff_eq, colorKey_inj]
      exact hrgb

/-- C18, palette mapper.  `order` is ANY iteration order of the palette's hash map: the only
    assumption is that it yields the same `(key, entry)` pairs as `pal.entries` (every
    permutation does, see `mapper_spec_perm`).  Duplicated colours, keys ≥ 256 and all
    options are allowed. -/
theorem mapper_spec (pal : Palette) (order : List (Nat × PalEntry)) (opts : MappingOptions)
    (horder : ∀ p, p ∈ order ↔ p ∈ pal.entries) (r g b alpha : UInt8) :
    -- (a) transparent
    (alpha ≠ 255 →
      (PaletteMapper.new order opts).lookup r g b alpha = opts.transparent.getD opts.failure) ∧
    -- (b) opaque, colour not in the palette
    (alpha = 255 → (∀ p ∈ pal.entries, ¬ SameRGB p.2 r g b) →
      (PaletteMapper.new order opts).lookup r g b alpha = opts.failure) ∧
    -- (c) opaque, colour in the palette, all its occurrences at indices below 256
    (alpha = 255 → (∃ p ∈ pal.entries, SameRGB p.2 r g b) →
      (∀ p ∈ pal.entries, SameRGB p.2 r g b → p.1 < 256) →
      ∃ p ∈ pal.entries, SameRGB p.2 r g b ∧ p.1 < 256 ∧
        (PaletteMapper.new order opts).lookup r g b alpha = UInt8.ofNat p.1 ∧
        ((PaletteMapper.new order opts).lookup r g b alpha).toNat = p.1) ∧
    -- (d) opaque, colour in the palette, some occurrence possibly at an index ≥ 256
    (alpha = 255 → (∃ p ∈ pal.entries, SameRGB p.2 r g b) →
      ∃ p ∈ pal.entries, SameRGB p.2 r g b ∧
        ((p.1 < 256 ∧ (PaletteMapper.new order opts).lookup r g b alpha = UInt8.ofNat p.1) ∨
         (256 ≤ p.1 ∧ (PaletteMapper.new order opts).lookup r g b alpha = opts.failure))) := by
  refine ⟨mapper_transparent order opts r g b alpha, ?_, ?_, ?_⟩
  · rintro rfl hno
    exact mapper_absent order opts r g b (fun p hp => hno p ((horder p).mp hp))
  · rintro rfl ⟨q, hq, hqrgb⟩ hlow
    obtain ⟨p, hp, hrgb, hval⟩ :=
      mapper_present order opts r g b ⟨q, (horder q).mpr hq, hqrgb⟩
    have hpe := (horder p).mp hp
    have hlt := hlow p hpe hrgb
    have hval' : (PaletteMapper.new order opts).lookup r g b 255 = UInt8.ofNat p.1 := by
      rw [hval, mapValue, if_pos hlt]
    refine ⟨p, hpe, hrgb, hlt, hval', ?_⟩
    rw [hval']
    exact UInt8.toNat_ofNat_of_lt' hlt
  · rintro rfl ⟨q, hq, hqrgb⟩
    obtain ⟨p, hp, hrgb, hval⟩ :=
      mapper_present order opts r g b ⟨q, (horder q).mpr hq, hqrgb⟩
    refine ⟨p, (horder p).mp hp, hrgb, ?_⟩
    by_cases hlt : p.1 < 256
    · left; exact ⟨hlt, by rw [hval, mapValue, if_pos hlt]⟩
    · right; exact ⟨by omega, by rw [hval, mapValue, if_neg hlt]⟩

/-- `mapper_spec` for iteration orders given as permutations of the entry list. -/
theorem mapper_spec_perm (pal : Palette) (order : List (Nat × PalEntry)) (opts : MappingOptions)
    (hperm : order.Perm pal.entries) (r g b alpha : UInt8) :
    (alpha ≠ 255 →
      (PaletteMapper.new order opts).lookup r g b alpha = opts.transparent.getD opts.failure) ∧
    (alpha = 255 → (∀ p ∈ pal.entries, ¬ SameRGB p.2 r g b) →
      (PaletteMapper.new order opts).lookup r g b alpha = opts.failure) ∧
    (alpha = 255 → (∃ p ∈ pal.entries, SameRGB p.2 r g b) →
      (∀ p ∈ pal.entries, SameRGB p.2 r g b → p.1 < 256) →
      ∃ p ∈ pal.entries, SameRGB p.2 r g b ∧ p.1 < 256 ∧
        (PaletteMapper.new order opts).lookup r g b alpha = UInt8.ofNat p.1 ∧
        ((PaletteMapper.new order opts).lookup r g b alpha).toNat = p.1) ∧
    (alpha = 255 → (∃ p ∈ pal.entries, SameRGB p.2 r g b) →
      ∃ p ∈ pal.entries, SameRGB p.2 r g b ∧
        ((p.1 < 256 ∧ (PaletteMapper.new order opts).lookup r g b alpha = UInt8.ofNat p.1) ∨
         (256 ≤ p.1 ∧ (PaletteMapper.new order opts).lookup r g b alpha = opts.failure))) :=
  mapper_spec pal order opts (fun _ => hperm.mem_iff) r g b alpha

/-- With distinct keys, a pair of the entry list is what `Palette.color` returns for its key. -/
theorem color_of_mem (pal : Palette) (hnodup : (pal.entries.map (·.1)).Nodup)
    (p : Nat × PalEntry) (hp : p ∈ pal.entries) : pal.color p.1 = some p.2 := by
  unfold Palette.color assocGet?
  generalize pal.entries = l at hnodup hp
  induction l with
  | nil => cases hp
  | cons a l ih =>
      simp only [List.map_cons, List.nodup_cons, List.mem_map, not_exists, not_and] at hnodup
      simp only [List.find?_cons]
      rcases List.mem_cons.mp hp with rfl | hmem
      · simp
      · have hne : a.1 ≠ p.1 := fun e => hnodup.1 p hmem e.symm
        have : (a.1 == p.1) = false := by simpa using hne
        rw [this]
        exact ih hnodup.2 hmem

/-- C18 (c) as stated informally: for an opaque colour all of whose palette occurrences are
    at indices below 256, the palette entry AT THE RETURNED INDEX has that same RGB
    (keys distinct, as in every palette built with `Palette.insert`). -/
theorem mapper_spec_entry (pal : Palette) (order : List (Nat × PalEntry)) (opts : MappingOptions)
    (horder : ∀ p, p ∈ order ↔ p ∈ pal.entries)
    (hnodup : (pal.entries.map (·.1)).Nodup) (r g b : UInt8)
    (hsome : ∃ p ∈ pal.entries, SameRGB p.2 r g b)
    (hlow : ∀ p ∈ pal.entries, SameRGB p.2 r g b → p.1 < 256) :
    ∃ e, pal.color ((PaletteMapper.new order opts).lookup r g b 255).toNat = some e ∧
      SameRGB e r g b := by
  obtain ⟨p, hp, hrgb, _, _, hnat⟩ :=
    (mapper_spec pal order opts horder r g b 255).2.2.1 rfl hsome hlow
  exact ⟨p.2, by rw [hnat]; exact color_of_mem pal hnodup p hp, hrgb⟩

/-- (c) in terms of entry ids, for palettes whose keys are the entry ids (the invariant of
    `Palette.insert`). -/
theorem mapper_spec_id (pal : Palette) (order : List (Nat × PalEntry)) (opts : MappingOptions)
    (horder : ∀ p, p ∈ order ↔ p ∈ pal.entries)
    (hid : ∀ p ∈ pal.entries, p.1 = p.2.id) (r g b : UInt8)
    (hsome : ∃ p ∈ pal.entries, SameRGB p.2 r g b)
    (hlow : ∀ p ∈ pal.entries, SameRGB p.2 r g b → p.2.id < 256) :
    ∃ p ∈ pal.entries, SameRGB p.2 r g b ∧ p.2.id < 256 ∧
      (PaletteMapper.new order opts).lookup r g b 255 = UInt8.ofNat p.2.id := by
  obtain ⟨p, hp, hrgb, hlt, hval, _⟩ :=
    (mapper_spec pal order opts horder r g b 255).2.2.1 rfl hsome
      (fun p hp h => by rw [hid p hp]; exact hlow p hp h)
  exact ⟨p, hp, hrgb, by rw [← hid p hp]; exact hlt, by rw [← hid p hp]; exact hval⟩

/-! ## to_indexed_image -/

/-- C18, indexed-image conversion: the dimensions, and one `lookup` result per pixel in
    buffer (= row-major) order.  No assumption on the image. -/
theorem toIndexed_spec (img : Image) (pm : PaletteMapper) :
    (toIndexedImage img pm).1 = (img.w, img.h) ∧
    (toIndexedImage img pm).2.size = min (img.w * img.h) img.px.size ∧
    ∀ i, i < img.w * img.h →
      (toIndexedImage img pm).2[i]? =
        (img.px[i]?).map (fun c => pm.lookup c.r c.g c.b c.a) := by
  refine ⟨rfl, ?_, ?_⟩
  · simp [toIndexedImage, Array.size_extract]
  · intro i hi
    simp only [toIndexedImage, Array.getElem?_map, Array.getElem?_extract, Nat.zero_add,
      Nat.sub_zero]
    by_cases h : i < img.px.size
    · rw [if_pos (by omega)]
    · rw [if_neg (by omega)]
      have : img.px[i]? = none := by simp; omega
      rw [this]

/-- `toIndexed_spec` on a well-formed image: `w * h` indices, the one at `y * w + x` is the
    `lookup` of pixel `(x, y)`; equivalently the `i`-th output is the `lookup` of the `i`-th
    pixel for all `i < img.px.size`. -/
theorem toIndexed_spec_wf (img : Image) (pm : PaletteMapper)
    (hsz : img.px.size = img.w * img.h) :
    (toIndexedImage img pm).1 = (img.w, img.h) ∧
    (toIndexedImage img pm).2.size = img.w * img.h ∧
    (∀ i (hi : i < img.px.size),
      (toIndexedImage img pm).2[i]? =
        some (pm.lookup img.px[i].r img.px[i].g img.px[i].b img.px[i].a)) ∧
    (∀ x y, x < img.w → y < img.h →
      (toIndexedImage img pm).2[y * img.w + x]? =
        (img.px[y * img.w + x]?).map (fun c => pm.lookup c.r c.g c.b c.a)) := by
  obtain ⟨h1, h2, h3⟩ := toIndexed_spec img pm
  refine ⟨h1, by rw [h2]; omega, ?_, ?_⟩
  · intro i hi
    rw [h3 i (by omega)]
    simp [hi]
  · intro x y hx hy
    have := row_bound (w := img.w) hy
    exact h3 _ (by omega)

/-! ## non-vacuity -/

private def p0 : RGBA := ⟨1, 2, 3, 255⟩
private def p1 : RGBA := ⟨4, 5, 6, 7⟩

/-- a 2 x 1 image satisfies the hypotheses of `extrude_spec` … -/
example : ∃ out, extrudeBorder ⟨2, 1, #[p0, p1]⟩ = .ok out ∧ out.w = 4 ∧ out.h = 3 :=
  let ⟨out, h, hw, hh, _⟩ := extrude_spec ⟨2, 1, #[p0, p1]⟩ rfl (by decide) (by decide)
  ⟨out, h, hw, hh⟩

/-- … and this is its extrusion -/
example : (extrudeBorder ⟨2, 1, #[p0, p1]⟩).map (fun o => (o.w, o.h, o.px.toList)) =
    .ok (4, 3, [p0, p0, p1, p1, p0, p0, p1, p1, p0, p0, p1, p1]) := by decide

example : extrudeBorder ⟨0, 1, #[]⟩ = .panic .sliceRange := extrude_degenerate _ (Or.inl rfl)

private def red : RGBA := ⟨255, 0, 0, 255⟩
private def blue : RGBA := ⟨0, 0, 255, 255⟩
/-- a palette with a duplicated colour (indices 0 and 2) -/
private def pal3 : Palette :=
  ((Palette.empty.insert ⟨0, red, none⟩).insert ⟨1, blue, none⟩).insert ⟨2, red, none⟩
private def opts0 : MappingOptions := ⟨9, some 7⟩

example : pal3.entries = [(2, ⟨2, red, none⟩), (1, ⟨1, blue, none⟩), (0, ⟨0, red, none⟩)] := by
  decide

/-- the result depends on the iteration order, and both results are entries with that RGB -/
example : (PaletteMapper.new pal3.entries opts0).lookup 255 0 0 255 = 0 := by decide
example : (PaletteMapper.new pal3.entries.reverse opts0).lookup 255 0 0 255 = 2 := by decide
example : (PaletteMapper.new pal3.entries opts0).lookup 0 0 255 255 = 1 := by decide
example : (PaletteMapper.new pal3.entries opts0).lookup 0 255 0 255 = 9 := by decide
example : (PaletteMapper.new pal3.entries opts0).lookup 255 0 0 254 = 7 := by decide
example : (PaletteMapper.new pal3.entries ⟨9, none⟩).lookup 255 0 0 0 = 9 := by decide

/-- the hypotheses of `mapper_spec_entry` are satisfiable (for the reversed order) -/
example : ∃ e, pal3.color
    ((PaletteMapper.new pal3.entries.reverse opts0).lookup 255 0 0 255).toNat = some e ∧
    SameRGB e 255 0 0 :=
  mapper_spec_entry pal3 pal3.entries.reverse opts0 (fun _ => List.mem_reverse) (by decide)
    255 0 0 ⟨(0, ⟨0, red, none⟩), by decide, by decide⟩ (by decide)

/-- an entry at an index ≥ 256 maps to the failure index -/
example : (PaletteMapper.new [(300, ⟨300, red, none⟩)] opts0).lookup 255 0 0 255 = 9 := by decide

example : toIndexedImage ⟨2, 1, #[red, p1]⟩ (PaletteMapper.new pal3.entries opts0)
    = ((2, 1), #[0, 7]) := by
  simp [toIndexedImage]
  decide

end Ase.Proofs.C18
