import AseProofs.Lemmas.NoPanicParse
/-
  C04  Loading is total.

  For every byte string (indeed for every non-panicking byte source), both build profiles
  and every non-panicking `inflate` parameter, the model of `AsepriteFile::read` returns a
  sprite or an error value; none of its modelled panic sites is reachable:

  * the `u32` additions of the old-palette packet loop (`parseOldPackets`, overflow checks):
    `NP_parseOldPackets` carries the invariant `skip + 255 * packetsLeft ≤ 255 * 65535`;
  * `self.data[frame]` in `ParseInfo::add_user_data`: `CtxInv` (a cel user-data context names
    an existing frame) is preserved by every `processChunk` arm (`rsat_processChunk`);
  * `compute_parents`: `C09.computeParents_noPanic`;
  * `layers[layer]` in `RawCel::validate`: guarded by the range check of `validateRow`;
  * `inflate`: hypothesis.

  Helper lemmas: `AseProofs/Lemmas/NoPanic.lean` (calculus, primitive readers),
  `NoPanicChunks.lean` (chunk decoders), `NoPanicParse.lean` (framing, state machine,
  validation, `NP_parseFile`).
-/
namespace Ase.Proofs.C04
open Ase

/-- **C04 (any source)**: over a source that never panics, with an inflater that never
    panics, `parseFile` never panics, in either build profile and from any source state. -/
theorem parseFile_noPanic {σ : Type} (S : Src σ) (inflate : Inflate) (m : Profile)
    (hS : ∀ n s p, S.read n s ≠ .panic p) (hinfl : ∀ z s, inflate z ≠ .panic s) :
    ∀ s p, parseFile S inflate m s ≠ .panic p :=
  (NP_parseFile (S := S) (fun n => ⟨hS n⟩) hinfl m).np

/-- the same, phrased as "a value or an error" -/
theorem parseFile_total {σ : Type} (S : Src σ) (inflate : Inflate) (m : Profile)
    (hS : ∀ n s p, S.read n s ≠ .panic p) (hinfl : ∀ z s, inflate z ≠ .panic s) (s : σ) :
    (∃ r, parseFile S inflate m s = .ok r) ∨ (∃ e, parseFile S inflate m s = .err e) :=
  ok_or_err_of_noPanic (fun p => parseFile_noPanic S inflate m hS hinfl s p)

/-- `parse` on a byte string never panics -/
theorem parse_noPanic (inflate : Inflate) (hinfl : ∀ z s, inflate z ≠ .panic s) (m : Profile)
    (bs : Bytes) : Res.NoPanic (parse inflate m bs) := by
  unfold parse
  exact noPanic_map _ (fun p => (NP_parseFile srcNP_bytes hinfl m).np bs p)

/-- **C04**: for every byte string, both build profiles and every non-panicking inflate
    parameter, the model of `AsepriteFile::read` returns a sprite or an error value. -/
theorem parse_total (inflate : Inflate) (hinfl : ∀ z s, inflate z ≠ .panic s) (m : Profile)
    (bs : Bytes) :
    (∃ s, parse inflate m bs = .ok s) ∨ (∃ e, parse inflate m bs = .err e) :=
  ok_or_err_of_noPanic (parse_noPanic inflate hinfl m bs)

/-- non-vacuity of the error branch: the empty input is rejected with `UnexpectedEof` -/
example (inflate : Inflate) (m : Profile) :
    parse inflate m [] = .err (.io .unexpectedEof) := rfl

/-- non-vacuity of the error branch: a header with a wrong magic number is rejected with
    `InvalidInput` -/
example (inflate : Inflate) (m : Profile) :
    parse inflate m [0, 0, 0, 0, 0, 0] = .err .invalid := rfl

/-- non-vacuity of the value branch: a bare 128-byte header (RGBA, no frames) loads, in the
    checked profile, with an inflater that always fails -/
example : (parse (fun _ => .err .invalid) Profile.checked
    ([0, 0, 0, 0, 0xE0, 0xA5, 0, 0, 1, 0, 1, 0, 32, 0] ++ List.replicate 114 0)).isOk = true := by
  decide +kernel

/-- the hypothesis on `inflate` is satisfiable (and is needed: `unzip` forwards a panic) -/
example : ∀ z s, (fun _ => Res.err .invalid : Inflate) z ≠ .panic s := by
  intro z s h; cases h

end Ase.Proofs.C04
