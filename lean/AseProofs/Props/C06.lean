import AseProofs.Lemmas.RenderBasic
/-
  C06  Cel pixels decode correctly for RGBA, grayscale and indexed colour.
-/
namespace Ase.Proofs.C06
open Ase Ase.Proofs

variable {F : Type} (ops : FOps F) (m : Profile)

/-- every pixel of the fresh canvas is fully transparent -/
theorem canvas_transparent (s : Sprite) (x y : Nat) (hx : x < s.width.toNat) (hy : y < s.height.toNat) :
    s.canvas.get x y = .ok RGBA.zero := by
  have hidx : y * s.width.toNat + x < s.width.toNat * s.height.toNat := by
    have h1 : y * s.width.toNat + x < (y + 1) * s.width.toNat := by rw [Nat.succ_mul]; omega
    have h2 : (y + 1) * s.width.toNat ≤ s.height.toNat * s.width.toNat :=
      Nat.mul_le_mul_right _ (by omega)
    rw [Nat.mul_comm s.width.toNat]
    omega
  simp [Sprite.canvas, Image.new, Image.get, hx, hy, Array.getD, hidx]

/-- **absent cel**: it renders as the canvas-sized fully transparent image -/
theorem absent_cel (s : Sprite) (f l : Nat) (h : s.cel f l = .ok none) :
    s.celImage ops m f l = .ok s.canvas := by
  simp [Sprite.celImage, h]

/-- **linked cel**: a cel that links to frame `g` renders exactly like the (raw) cel of the
    same layer in frame `g` -/
theorem linked_cel_eq_target (s : Sprite) (f g l : Nat) (c target : RawCel Pixels) (gf : UInt16)
    (hc : s.cel f l = .ok (some c)) (hlink : c.content = .linked gf) (hg : gf.toNat = g)
    (hlayer : c.data.layerIndex.toNat = l) (hl : l < s.numLayers)
    (ht : s.cel g l = .ok (some target)) (hraw : ∀ fr, target.content ≠ .linked fr) :
    s.celImage ops m f l = s.celImage ops m g l := by
  have hsome : ∃ ld, s.layers[l]? = some ld := ⟨s.layers[l], by simp [Sprite.numLayers] at hl; simp [hl]⟩
  obtain ⟨ld, hld⟩ := hsome
  have h1 : s.celImage ops m f l = s.writeCelDirect ops m s.canvas target := by
    simp only [Sprite.celImage, hc, Sprite.writeCel, hlink, hlayer, hld, hg, ht]
  have h2 : s.celImage ops m g l = s.writeCelDirect ops m s.canvas target := by
    simp only [Sprite.celImage, ht, Sprite.writeCel]
  rw [h1, h2]

/-- **RGBA** pixels are used verbatim -/
theorem rgba_verbatim (pal : Option Palette) (px : Array RGBA) :
    pixelsToRgba pal (.rgba px) = .ok px := rfl

/-- **grayscale** `(v, a)` becomes `(v, v, v, a)` -/
theorem gray_conversion (pal : Option Palette) (px : Array (UInt8 × UInt8)) :
    pixelsToRgba pal (.gray px) = .ok (px.map (fun (v, a) => ⟨v, v, v, a⟩)) := rfl

/-- conversion of one indexed pixel -/
def indexedPixel (p : Palette) (tci : UInt8) (bg : Bool) (i : UInt8) : Option RGBA :=
  (p.color i.toNat).map (fun e =>
    ⟨e.rgba.r, e.rgba.g, e.rgba.b, if tci == i && !bg then 0 else e.rgba.a⟩)

/-- one step of the conversion loop of `clone_as_image_rgba` -/
def convStep (p : Palette) (tci : UInt8) (bg : Bool) (acc : Res (Array RGBA)) (i : UInt8) :
    Res (Array RGBA) :=
  match acc with
  | .ok out =>
      match p.color i.toNat with
      | none => .panic .unwrapNone
      | some e =>
          .ok (out.push ⟨e.rgba.r, e.rgba.g, e.rgba.b, if tci == i && !bg then 0 else e.rgba.a⟩)
  | other => other

theorem pixelsToRgba_indexed_eq (p : Palette) (tci : UInt8) (bg : Bool) (px : Array UInt8) :
    pixelsToRgba (some p) (.indexed tci bg px) =
      px.foldl (convStep p tci bg) (.ok (Array.mkEmpty px.size)) := rfl

theorem indexed_fold (p : Palette) (tci : UInt8) (bg : Bool) :
    ∀ (l : List UInt8) (acc : Array RGBA),
      (∀ i ∈ l, (p.color i.toNat).isSome) →
      l.foldl (convStep p tci bg) (Res.ok acc)
        = Res.ok (acc ++ (l.filterMap (indexedPixel p tci bg)).toArray) := by
  intro l
  induction l with
  | nil => intro acc _; simp
  | cons i t ih =>
      intro acc hall
      have hi : (p.color i.toNat).isSome := hall i (by simp)
      obtain ⟨e, he⟩ := Option.isSome_iff_exists.mp hi
      simp only [List.foldl_cons, convStep, he]
      rw [ih _ (fun j hj => hall j (by simp [hj]))]
      simp [indexedPixel, he]

/-- **indexed** pixels become their palette colour, except that the transparent index is
    fully transparent on every layer not flagged background; the conversion cannot fail when
    every index is in the palette (which validation guarantees at load time) -/
theorem indexed_conversion (p : Palette) (tci : UInt8) (bg : Bool) (px : Array UInt8)
    (hall : ∀ i ∈ px.toList, (p.color i.toNat).isSome) :
    pixelsToRgba (some p) (.indexed tci bg px) =
      .ok ((px.toList.filterMap (indexedPixel p tci bg)).toArray) := by
  rw [pixelsToRgba_indexed_eq, ← Array.foldl_toList, indexed_fold p tci bg px.toList _ hall]
  simp

/-- each converted indexed pixel: alpha 0 iff it is the transparent index on a non-background
    layer (or the palette entry itself has alpha 0) -/
theorem indexedPixel_spec (p : Palette) (tci : UInt8) (bg : Bool) (i : UInt8) (e : PalEntry)
    (he : p.color i.toNat = some e) :
    indexedPixel p tci bg i = some
      ⟨e.rgba.r, e.rgba.g, e.rgba.b, if i = tci ∧ bg = false then 0 else e.rgba.a⟩ := by
  simp only [indexedPixel, he, Option.map_some]
  by_cases h1 : tci = i
  · subst h1
    cases bg <;> simp
  · have h1' : ¬ i = tci := fun h => h1 h.symm
    have hb : (tci == i) = false := by simpa using h1
    simp [hb, h1']

end Ase.Proofs.C06
