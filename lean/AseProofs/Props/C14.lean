import Ase.Stream
import AseProofs.Lemmas.SrcSim
/-
  C14  The result of loading does not depend on how the reader delivers the bytes
       (short reads, `Interrupted`); an I/O error of the reader is returned as such.
-/
namespace Ase.Proofs.C14
open Ase Ase.Proofs.SrcSim

/-- the schedule contains no `fail` event -/
def NoFail (sched : List Ev) : Prop := ∀ k, Ev.fail k ∉ sched

/-- kind of the first `fail` event -/
def firstFail : List Ev → Option IoKind
  | [] => none
  | .fail k :: _ => some k
  | .deliver _ :: rest => firstFail rest
  | .interrupted :: rest => firstFail rest

/-- the largest number of bytes the events before the first `fail` can deliver -/
def capacity : List Ev → Nat
  | [] => 0
  | .fail _ :: _ => 0
  | .deliver n :: rest => max n 1 + capacity rest
  | .interrupted :: rest => capacity rest

/-- the number of `deliver` events before the first `fail` -/
def deliveries : List Ev → Nat
  | [] => 0
  | .fail _ :: _ => 0
  | .deliver _ :: rest => 1 + deliveries rest
  | .interrupted :: rest => deliveries rest

theorem noFail_iff (sched : List Ev) : NoFail sched ↔ firstFail sched = none := by
  induction sched with
  | nil => simp [NoFail, firstFail]
  | cons e l ih =>
      cases e with
      | deliver n => rw [firstFail, ← ih]; simp [NoFail]
      | interrupted => rw [firstFail, ← ih]; simp [NoFail]
      | fail k =>
          simp only [firstFail, reduceCtorEq, iff_false]
          intro h
          exact h k (List.mem_cons_self ..)

theorem NoFail.of_cons {e : Ev} {l : List Ev} (h : NoFail (e :: l)) : NoFail l :=
  fun k hk => h k (List.mem_cons_of_mem _ hk)

theorem firstFail_append (pre : List Ev) (k : IoKind) (post : List Ev) (h : NoFail pre) :
    firstFail (pre ++ Ev.fail k :: post) = some k := by
  induction pre with
  | nil => rfl
  | cons e l ih =>
      cases e with
      | deliver n => exact ih h.of_cons
      | interrupted => exact ih h.of_cons
      | fail k' => exact absurd (List.mem_cons_self ..) (h k')

theorem capacity_append (pre : List Ev) (k : IoKind) (post : List Ev) (h : NoFail pre) :
    capacity (pre ++ Ev.fail k :: post) = capacity pre := by
  induction pre with
  | nil => rfl
  | cons e l ih =>
      cases e with
      | deliver n => simp only [List.cons_append, capacity, ih h.of_cons]
      | interrupted => simp only [List.cons_append, capacity, ih h.of_cons]
      | fail k' => exact absurd (List.mem_cons_self ..) (h k')

theorem deliveries_append (pre post : List Ev) (h : NoFail pre) :
    deliveries pre ≤ deliveries (pre ++ post) := by
  induction pre with
  | nil => simp [deliveries]
  | cons e l ih =>
      cases e with
      | deliver n => simp only [List.cons_append, deliveries]; have := ih h.of_cons; omega
      | interrupted => simp only [List.cons_append, deliveries]; exact ih h.of_cons
      | fail k' => exact absurd (List.mem_cons_self ..) (h k')

/-! ### the `read_exact` loop -/

/-- What the loop does, for every schedule: it delivers exactly the next `need` bytes, or the
    data is too short, or the first `fail` event of the schedule is reached. -/
theorem readExactGo_spec : ∀ (sched : List Ev) (need : Nat) (acc data : Bytes),
    (∃ sched', readExactGo sched need acc data
          = .ok (acc ++ data.take need, ⟨data.drop need, sched'⟩) ∧
        need ≤ data.length ∧ firstFail sched' = firstFail sched ∧
        (sched' = [] ∨ capacity sched' + need ≤ capacity sched) ∧
        deliveries sched ≤ deliveries sched' + need) ∨
    (readExactGo sched need acc data = .err (.io .unexpectedEof) ∧ data.length < need) ∨
    (∃ k, readExactGo sched need acc data = .err (.io k) ∧ firstFail sched = some k ∧
        deliveries sched ≤ data.length ∧ deliveries sched < need) := by
  intro sched
  induction sched with
  | nil =>
      intro need acc data
      cases need with
      | zero => exact .inl ⟨[], by simp [readExactGo], by simp, rfl, .inl rfl, by simp⟩
      | succ need =>
          by_cases hn : need + 1 ≤ data.length
          · exact .inl ⟨[], by simp [readExactGo, hn], hn, rfl, .inl rfl, by simp [deliveries]⟩
          · exact .inr (.inl ⟨by simp [readExactGo, hn], by omega⟩)
  | cons e rest ih =>
      intro need acc data
      cases need with
      | zero =>
          exact .inl ⟨e :: rest, by simp [readExactGo], by simp, rfl, .inr (by simp), by simp⟩
      | succ need =>
          cases e with
          | interrupted =>
              rcases ih (need + 1) acc data with
                ⟨s', h1, h2, h3, h4, h5⟩ | ⟨h1, h2⟩ | ⟨k, h1, h2, h3, h4⟩
              · exact .inl ⟨s', by rw [readExactGo, h1], h2, by rw [h3, firstFail],
                  by simpa [capacity] using h4, by simpa [deliveries] using h5⟩
              · exact .inr (.inl ⟨by rw [readExactGo, h1], h2⟩)
              · exact .inr (.inr ⟨k, by rw [readExactGo, h1], by rw [firstFail, h2],
                  by simpa [deliveries] using h3, by simpa [deliveries] using h4⟩)
          | fail k =>
              exact .inr (.inr ⟨k, by simp [readExactGo], rfl, by simp [deliveries],
                by simp [deliveries]⟩)
          | deliver n =>
              by_cases hd : min (min (max n 1) (need + 1)) data.length = 0
              · refine .inr (.inl ⟨by simp only [readExactGo, hd, if_true], by omega⟩)
              · have hstep : readExactGo (.deliver n :: rest) (need + 1) acc data =
                    readExactGo rest (need + 1 - min (min (max n 1) (need + 1)) data.length)
                      (acc ++ data.take (min (min (max n 1) (need + 1)) data.length))
                      (data.drop (min (min (max n 1) (need + 1)) data.length)) := by
                  simp only [readExactGo, hd, if_false]
                rw [hstep]
                generalize hdd : min (min (max n 1) (need + 1)) data.length = d at hd
                have hd1 : d ≤ need + 1 := by omega
                have hd2 : d ≤ data.length := by omega
                have hd3 : d ≤ max n 1 := by omega
                have hd4 : 1 ≤ d := by omega
                obtain ⟨r, hr⟩ : ∃ r, need + 1 = d + r := ⟨need + 1 - d, by omega⟩
                have hr' : need + 1 - d = r := by omega
                rw [hr', hr]
                rcases ih r (acc ++ data.take d) (data.drop d) with
                  ⟨s', h1, h2, h3, h4, h5⟩ | ⟨h1, h2⟩ | ⟨k, h1, h2, h3, h4⟩
                · refine .inl ⟨s', ?_, ?_, by rw [h3, firstFail], ?_, ?_⟩
                  · rw [h1, List.append_assoc, ← List.take_add, List.drop_drop]
                  · simp only [List.length_drop] at h2; omega
                  · rcases h4 with h4 | h4
                    · exact .inl h4
                    · refine .inr ?_
                      simp only [capacity]; omega
                  · simp only [deliveries]; omega
                · refine .inr (.inl ⟨h1, ?_⟩)
                  simp only [List.length_drop] at h2; omega
                · refine .inr (.inr ⟨k, h1, by rw [firstFail, h2], ?_, ?_⟩)
                  · simp only [List.length_drop] at h3; simp only [deliveries]; omega
                  · simp only [deliveries]; omega

theorem readExact_zero (s : Stream) : readExact 0 s = .ok ([], s) := by
  obtain ⟨d, sc⟩ := s
  cases sc <;> simp [readExact, readExactGo]

/-- **C14 (one read)**: without `fail` events `read_exact` on the scheduled reader is
    `read_exact` on the plain bytes, whatever the schedule of short reads and interrupts is;
    the remaining schedule again has no `fail` event. -/
theorem readExact_sched (n : Nat) (bs : Bytes) (sched : List Ev) (h : NoFail sched) :
    (∃ e, readExact n ⟨bs, sched⟩ = .err e ∧ bytesRead n bs = .err e) ∨
    (∃ b rest sched', readExact n ⟨bs, sched⟩ = .ok (b, ⟨rest, sched'⟩) ∧
        bytesRead n bs = .ok (b, rest) ∧ NoFail sched') := by
  rcases readExactGo_spec sched n [] bs with ⟨s', h1, h2, h3, _, _⟩ | ⟨h1, h2⟩ | ⟨k, _, h2, _, _⟩
  · refine .inr ⟨bs.take n, bs.drop n, s', by simpa [readExact] using h1, by simp [bytesRead, h2], ?_⟩
    rw [noFail_iff, h3, ← noFail_iff]; exact h
  · refine .inl ⟨_, h1, ?_⟩
    have : ¬ n ≤ bs.length := by omega
    simp [bytesRead, this]
  · rw [(noFail_iff sched).1 h] at h2; cases h2

/-! ### the simulation between the scheduled reader and the plain bytes -/

/-- Invariant for schedules whose first `fail` event (if any) is `o`: same remaining data, and
    (when there is a `fail` event) the bytes consumed so far, `L - t.length`, fit into the
    capacity used so far, `C - capacity sched`. -/
def Rel (o : Option IoKind) (L C : Nat) (s : Stream) (t : Bytes) : Prop :=
  s.data = t ∧ firstFail s.sched = o ∧ (o ≠ none → L + capacity s.sched ≤ C + t.length)

/-- the only way the scheduled run may leave the plain run: the error of the first `fail` -/
def Esc (o : Option IoKind) (e : Err) : Prop := ∃ k, o = some k ∧ e = .io k

theorem simSrc_stream (o : Option IoKind) (L C : Nat) :
    SimSrc (Rel o L C) (Esc o) streamSrc bytesSrc := by
  intro n s t hst
  obtain ⟨data, sched⟩ := s
  obtain ⟨hd, hf, hc⟩ := hst
  simp only at hd hf hc
  subst hd
  show RelRes _ _ (readExactGo sched n [] data) (bytesRead n data)
  rcases readExactGo_spec sched n [] data with
    ⟨s', h1, h2, h3, h4, _⟩ | ⟨h1, h2⟩ | ⟨k, h1, h2, _, _⟩
  · refine .inr (.inl ⟨data.take n, ⟨data.drop n, s'⟩, data.drop n, by simpa using h1,
      by simp [bytesRead, h2], rfl, by rw [h3, hf], ?_⟩)
    intro ho
    have := hc ho
    rcases h4 with h4 | h4
    · subst h4
      rw [← hf, ← h3] at ho
      exact absurd rfl ho
    · simp only [List.length_drop]; omega
  · have : ¬ n ≤ data.length := by omega
    exact .inr (.inr (.inl ⟨_, h1, by simp [bytesRead, this]⟩))
  · exact .inl ⟨_, ⟨k, by rw [← hf, h2], rfl⟩, h1⟩

/-- Invariant for "the `fail` event is out of reach": more `deliver` events are left before
    it than bytes of data. -/
def RelFar (s : Stream) (t : Bytes) : Prop := s.data = t ∧ t.length < deliveries s.sched

theorem simSrc_stream_far : SimSrc RelFar (fun _ => False) streamSrc bytesSrc := by
  intro n s t hst
  obtain ⟨data, sched⟩ := s
  obtain ⟨hd, hc⟩ := hst
  simp only at hd hc
  subst hd
  show RelRes _ _ (readExactGo sched n [] data) (bytesRead n data)
  rcases readExactGo_spec sched n [] data with
    ⟨s', h1, h2, _, _, h5⟩ | ⟨h1, h2⟩ | ⟨k, _, _, h3, _⟩
  · refine .inr (.inl ⟨data.take n, ⟨data.drop n, s'⟩, data.drop n, by simpa using h1,
      by simp [bytesRead, h2], rfl, ?_⟩)
    simp only [List.length_drop]; omega
  · have : ¬ n ≤ data.length := by omega
    exact .inr (.inr (.inl ⟨_, h1, by simp [bytesRead, this]⟩))
  · omega

/-! ### the properties -/

/-- **C14 (independence of the delivery schedule)**: for every byte string, every inflater and
    every build profile, loading from a reader that delivers the bytes in arbitrary pieces and
    reports arbitrary many `Interrupted` gives exactly the result of loading the plain bytes
    (the same sprite, the same error, the same panic). -/
theorem parse_sched_indep (inflate : Inflate) (m : Profile) (bs : Bytes) (sched : List Ev)
    (h : NoFail sched) : parseStream inflate m ⟨bs, sched⟩ = parse inflate m bs := by
  have hsim := sim_parseFile (simSrc_stream none 0 0) inflate m ⟨bs, sched⟩ bs
    ⟨rfl, (noFail_iff _).1 h, fun ho => absurd rfl ho⟩
  rcases hsim.map_fst with ⟨e, ⟨k, hk, _⟩, _⟩ | heq
  · cases hk
  · exact heq

/-- **C14 (I/O errors are returned)**: if the first `fail k` event of the schedule comes after
    `pre`, the result is the one of the plain bytes (the parser finished, or failed for another
    reason, before consuming the failing event) or it is `Err(io k)`. In particular it is never
    a different sprite and never a panic the plain bytes do not produce. -/
theorem io_error_returned (inflate : Inflate) (m : Profile) (bs : Bytes)
    (pre : List Ev) (k : IoKind) (post : List Ev) (hpre : NoFail pre) :
    parseStream inflate m ⟨bs, pre ++ [Ev.fail k] ++ post⟩ = parse inflate m bs ∨
    parseStream inflate m ⟨bs, pre ++ [Ev.fail k] ++ post⟩ = .err (.io k) := by
  have hff : firstFail (pre ++ [Ev.fail k] ++ post) = some k := by
    simpa using firstFail_append pre k post hpre
  have hsim := sim_parseFile
    (simSrc_stream (some k) bs.length (capacity (pre ++ [Ev.fail k] ++ post))) inflate m
    ⟨bs, pre ++ [Ev.fail k] ++ post⟩ bs ⟨rfl, hff, fun _ => Nat.le_of_eq (Nat.add_comm ..)⟩
  rcases hsim.map_fst with ⟨e, ⟨k', hk, he⟩, h1⟩ | heq
  · cases hk
    subst he
    exact .inr h1
  · exact .inl heq

/-- **C14 (sharper, the failing event is reached)**: if the plain bytes load and the events
    before the first `fail k` cannot deliver all the bytes the parser consumes, the result is
    `Err(io k)`. -/
theorem io_error_reached (inflate : Inflate) (m : Profile) (bs : Bytes)
    (pre : List Ev) (k : IoKind) (post : List Ev) (hpre : NoFail pre)
    (s : Sprite) (rest : Bytes) (hok : parseFile bytesSrc inflate m bs = .ok (s, rest))
    (hcap : capacity pre < bs.length - rest.length) :
    parseStream inflate m ⟨bs, pre ++ [Ev.fail k] ++ post⟩ = .err (.io k) := by
  have hff : firstFail (pre ++ [Ev.fail k] ++ post) = some k := by
    simpa using firstFail_append pre k post hpre
  have hcp : capacity (pre ++ [Ev.fail k] ++ post) = capacity pre := by
    simpa using capacity_append pre k post hpre
  have hsim := sim_parseFile
    (simSrc_stream (some k) bs.length (capacity (pre ++ [Ev.fail k] ++ post))) inflate m
    ⟨bs, pre ++ [Ev.fail k] ++ post⟩ bs ⟨rfl, hff, fun _ => Nat.le_of_eq (Nat.add_comm ..)⟩
  rcases hsim with ⟨e, ⟨k', hk, he⟩, h1⟩ | ⟨a, s', t', _, h2, ⟨_, _, hr⟩⟩ | ⟨e, _, h2⟩ | ⟨p, _, h2⟩
  · cases hk
    subst he
    rw [parseStream, h1]; rfl
  · rw [hok] at h2
    simp only [Res.ok.injEq, Prod.mk.injEq] at h2
    obtain ⟨_, rfl⟩ := h2
    have := hr (by simp)
    rw [hcp] at this
    omega
  · rw [hok] at h2; cases h2
  · rw [hok] at h2; cases h2

/-- **C14 (sharper, the failing event is not reached)**: if more `deliver` events precede the
    first `fail` than the file has bytes, whatever follows them (`fail` events included) has no
    influence: the result is the one of the plain bytes. -/
theorem io_error_not_reached (inflate : Inflate) (m : Profile) (bs : Bytes)
    (pre post : List Ev) (hpre : NoFail pre) (hlen : bs.length < deliveries pre) :
    parseStream inflate m ⟨bs, pre ++ post⟩ = parse inflate m bs := by
  have hsim := sim_parseFile simSrc_stream_far inflate m ⟨bs, pre ++ post⟩ bs
    ⟨rfl, Nat.lt_of_lt_of_le hlen (deliveries_append pre post hpre)⟩
  rcases hsim.map_fst with ⟨e, he, _⟩ | heq
  · exact he.elim
  · exact heq

/-! ### non-vacuity -/

/-- a schedule with short reads and an interrupt satisfies `NoFail` -/
example : NoFail [.deliver 1, .interrupted, .deliver 3, .deliver 0] :=
  (noFail_iff _).2 rfl

/-- the loop really assembles the four bytes from three short reads and one retry -/
example : readExact 4 ⟨[1, 2, 3, 4, 5], [.deliver 1, .interrupted, .deliver 2, .deliver 0, .deliver 9]⟩
    = .ok ([1, 2, 3, 4], ⟨[5], [.deliver 9]⟩) := by decide

/-- a reader that hits the end of the data reports `UnexpectedEof` -/
example : readExact 4 ⟨[1, 2, 3], [.deliver 1, .interrupted, .deliver 5, .deliver 1]⟩
    = .err (.io .unexpectedEof) := by decide

/-- an injected error is returned by the loop -/
example : readExact 4 ⟨[1, 2, 3, 4, 5], [.deliver 1, .interrupted, .fail (.other 7), .deliver 9]⟩
    = .err (.io (.other 7)) := by decide

/-- instance of `parse_sched_indep` on that schedule -/
example (inflate : Inflate) (m : Profile) (bs : Bytes) :
    parseStream inflate m ⟨bs, [.deliver 1, .interrupted, .deliver 3, .deliver 0]⟩
      = parse inflate m bs :=
  parse_sched_indep inflate m bs _ ((noFail_iff _).2 rfl)

/-- a reader that fails at its first call makes loading fail with that error -/
example (inflate : Inflate) (m : Profile) (bs : Bytes) (k : IoKind) (post : List Ev) :
    parseStream inflate m ⟨bs, [.interrupted] ++ [Ev.fail k] ++ post⟩ = .err (.io k) := by
  have h : parseFile streamSrc inflate m ⟨bs, [.interrupted] ++ [Ev.fail k] ++ post⟩
      = .err (.io k) := by
    unfold parseFile readHeader readU32
    exact RdS.bind_err (RdS.bind_err (RdS.bind_err rfl))
  rw [parseStream, h]; rfl

/-- a minimal file that loads (128-byte header, one 16-byte frame without chunks) -/
def tiny : Bytes :=
  [144, 0, 0, 0, 0xE0, 0xA5, 1, 0, 1, 0, 1, 0, 32, 0] ++ List.replicate 114 0 ++
  [16, 0, 0, 0, 0xFA, 0xF1, 0, 0, 100, 0, 0, 0, 0, 0, 0, 0]

def loadsAll {α} : Res (α × Bytes) → Bool
  | .ok (_, []) => true
  | _ => false

set_option maxRecDepth 100000 in
theorem tiny_loads (inflate : Inflate) (m : Profile) :
    ∃ s, parseFile bytesSrc inflate m tiny = .ok (s, []) := by
  have h : loadsAll (parseFile bytesSrc inflate m tiny) = true := by with_unfolding_all rfl
  generalize parseFile bytesSrc inflate m tiny = r at h
  match r, h with
  | .ok (s, []), _ => exact ⟨s, rfl⟩

/-- `io_error_reached` applies: the events before the failure deliver at most 143 of the 144
    bytes, so loading fails with the injected error -/
example (inflate : Inflate) (m : Profile) (k : IoKind) :
    parseStream inflate m
      ⟨tiny, [.deliver 100, .interrupted, .deliver 43] ++ [Ev.fail k] ++ [.deliver 5]⟩
      = .err (.io k) := by
  obtain ⟨s, hs⟩ := tiny_loads inflate m
  exact io_error_reached inflate m tiny _ k _ ((noFail_iff _).2 rfl) s [] hs
    (by simp [capacity, tiny])

theorem firstFail_replicate (n d : Nat) : firstFail (List.replicate n (.deliver d)) = none := by
  induction n with
  | zero => rfl
  | succ n ih => simpa [List.replicate_succ, firstFail] using ih

theorem deliveries_replicate (n d : Nat) : deliveries (List.replicate n (.deliver d)) = n := by
  induction n with
  | zero => rfl
  | succ n ih => simp only [List.replicate_succ, deliveries, ih]; omega

/-- `io_error_not_reached` applies: 145 one-byte deliveries precede the failure -/
example (inflate : Inflate) (m : Profile) (k : IoKind) :
    parseStream inflate m ⟨tiny, List.replicate 145 (.deliver 1) ++ [Ev.fail k]⟩
      = parse inflate m tiny :=
  io_error_not_reached inflate m tiny _ _ ((noFail_iff _).2 (firstFail_replicate _ _))
    (by rw [deliveries_replicate]; simp [tiny])

end Ase.Proofs.C14
