import AseProofs.Lemmas.RenderBasic
/-
  C19  All access paths to a cel agree; single-layer frames equal the cel image.

  In the model the three routes (`AsepriteFile::cel(f, l)`, `Frame::layer(l)`, `Layer::frame(f)`)
  are one function of the pair (frame, layer) by construction, `Sprite.cel` / `Sprite.celImage`;
  that the three Rust constructors build the same `CelId` is what the correspondence check
  compares (observation lines celA / celB / celC on sprites with frames ≠ layers).
  Proved here: the relations between frame images, cel images and tilemap images.
-/
namespace Ase.Proofs.C19
open Ase Ase.Proofs

variable {F : Type} (ops : FOps F) (m : Profile)

/-- a frame in which exactly one layer has a cel, and that layer is visible, renders exactly
    that cel's image (same pixels, same failure behaviour) -/
theorem single_layer_frame_eq_cel (s : Sprite) (f l : Nat) (c : RawCel Pixels)
    (hrow : s.cels[f]? = some [(l, c)]) (hl : l < s.numLayers)
    (hvis : s.isVisible l = .ok true) :
    s.frameImage ops m f = s.celImage ops m f l := by
  have hl' : ¬ l ≥ s.numLayers := by omega
  simp only [Sprite.frameImage, Sprite.celImage, Sprite.cel, hrow, Sprite.frameImageLoop, hl',
    if_false, hvis, FrameCels.get?, List.find?, beq_self_eq_true, Option.map_some]
  cases s.writeCel ops m s.canvas c <;> rfl

/-- a hidden layer (directly or through an ancestor) contributes nothing to the frame image -/
theorem hidden_layer_skipped (s : Sprite) (l : Nat) (c : RawCel Pixels) (rest : FrameCels Pixels)
    (img : Image) (hl : l < s.numLayers) (hvis : s.isVisible l = .ok false) :
    s.frameImageLoop ops m ((l, c) :: rest) img = s.frameImageLoop ops m rest img := by
  have hl' : ¬ l ≥ s.numLayers := by omega
  simp only [Sprite.frameImageLoop, hl', if_false, hvis]

/-- a frame without cels is the transparent canvas -/
theorem empty_frame (s : Sprite) (f : Nat) (hrow : s.cels[f]? = some []) :
    s.frameImage ops m f = .ok s.canvas := by
  simp [Sprite.frameImage, hrow, Sprite.frameImageLoop]

/-- `Tilemap::image` is the image of its cel: the tilemap view stores the (frame, layer) it was
    built from, and that cel is a tilemap cel of that frame and layer -/
theorem tilemap_view_cel (s : Sprite) (l f : Nat) (v : TilemapView)
    (h : s.tilemap l f = .ok (some v)) :
    v.frame = f ∧ v.layer = l ∧ s.cel f l = .ok (some v.cel) ∧ v.cel.content = .tilemap v.data := by
  unfold Sprite.tilemap at h
  split at h
  · cases h
  · split at h
    · cases h
    · split at h
      · split at h
        · cases h
        · split at h
          · rename_i hc
            split at h
            · rename_i hcont
              dsimp only at h
              split at h
              · cases h
              · split at h
                · cases h
                  exact ⟨rfl, rfl, hc, hcont⟩
                · cases h
            · cases h
          · cases h
          · cases h
          · cases h
      · cases h

/-- both produced images have the canvas dimensions (frame image and cel image) -/
theorem images_have_canvas_dims (s : Sprite) (f l : Nat) (a b : Image)
    (ha : s.frameImage ops m f = .ok a) (hb : s.celImage ops m f l = .ok b) :
    a.w = s.width.toNat ∧ a.h = s.height.toNat ∧ b.w = s.width.toNat ∧ b.h = s.height.toNat :=
  ⟨(frameImage_dims ops m s f a ha).1, (frameImage_dims ops m s f a ha).2.1,
   (celImage_dims ops m s f l b hb).1, (celImage_dims ops m s f l b hb).2.1⟩

end Ase.Proofs.C19
