import Ase.Parse
import AseProofs.Lemmas.SrcSim
/-
  C13  Truncated files are rejected: a prefix that ends before the end of the last frame
       never loads; it fails with `UnexpectedEof`.
-/
namespace Ase.Proofs.C13
open Ase Ase.Proofs.SrcSim

/-- **C13**: if `bs` loads and the parser stops after `bs.length - rest.length` bytes (the end
    of the last frame), then every prefix of `bs` that is shorter than that is rejected with
    `UnexpectedEof` — whatever the inflater and the build profile are. An earlier read hits the
    end of the input before any other failure can occur, because every read that succeeded on
    the full input either lies inside the prefix (and then succeeds identically) or crosses
    its end. -/
theorem truncated_rejected (inflate : Inflate) (m : Profile) (bs : Bytes) (s : Sprite)
    (rest : Bytes) (h : parseFile bytesSrc inflate m bs = .ok (s, rest)) (k : Nat)
    (hk : k < bs.length - rest.length) :
    parse inflate m (bs.take k) = .err (.io .unexpectedEof) := by
  obtain ⟨used, hbs, _, htr⟩ := strict_parseFile inflate m bs s rest h
  have hlen : bs.length - rest.length = used.length := by
    rw [hbs, List.length_append]; omega
  have hku : k < used.length := by omega
  have htake : bs.take k = used.take k := by
    rw [hbs, List.take_append_of_le_length (by omega)]
  rw [parse, htake, htr k hku]
  rfl

/-- the parser never reads beyond what it reports as consumed: the result on `bs` only depends
    on the consumed prefix (anything may follow the last frame) -/
theorem trailing_irrelevant (inflate : Inflate) (m : Profile) (bs : Bytes) (s : Sprite)
    (rest : Bytes) (h : parseFile bytesSrc inflate m bs = .ok (s, rest)) (tl : Bytes) :
    parse inflate m (bs.take (bs.length - rest.length) ++ tl) = .ok s := by
  obtain ⟨used, hbs, hext, _⟩ := strict_parseFile inflate m bs s rest h
  have hlen : bs.length - rest.length = used.length := by
    rw [hbs, List.length_append]; omega
  have htake : bs.take (bs.length - rest.length) = used := by
    rw [hlen, hbs, List.take_left']
    rfl
  rw [parse, htake, hext tl]
  rfl

/-! ### non-vacuity -/

/-- a minimal file: the 128-byte header (one frame, 1×1, RGBA) and one frame of 16 bytes
    without chunks -/
def tiny : Bytes :=
  [144, 0, 0, 0, 0xE0, 0xA5, 1, 0, 1, 0, 1, 0, 32, 0] ++ List.replicate 114 0 ++
  [16, 0, 0, 0, 0xFA, 0xF1, 0, 0, 100, 0, 0, 0, 0, 0, 0, 0]

/-- "the whole input was consumed and a sprite was returned" -/
def loadsAll {α} : Res (α × Bytes) → Bool
  | .ok (_, []) => true
  | _ => false

set_option maxRecDepth 100000 in
/-- it loads, consuming all of its 144 bytes (by evaluation of the model) -/
theorem tiny_loads (inflate : Inflate) (m : Profile) :
    ∃ s, parseFile bytesSrc inflate m tiny = .ok (s, []) := by
  have h : loadsAll (parseFile bytesSrc inflate m tiny) = true := by with_unfolding_all rfl
  generalize parseFile bytesSrc inflate m tiny = r at h
  match r, h with
  | .ok (s, []), _ => exact ⟨s, rfl⟩

theorem tiny_length : tiny.length = 144 := by simp [tiny]

/-- hence each of its 144 proper prefixes is rejected -/
example (inflate : Inflate) (m : Profile) (k : Nat) (hk : k < 144) :
    parse inflate m (tiny.take k) = .err (.io .unexpectedEof) := by
  obtain ⟨s, hs⟩ := tiny_loads inflate m
  exact truncated_rejected inflate m tiny s [] hs k (by rw [tiny_length]; exact hk)

end Ase.Proofs.C13
