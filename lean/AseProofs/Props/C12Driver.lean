import AseProofs.Props.C12Inflate
import AseProofs.Props.C12Footprint
/-
  C12 instantiated at the inflater the driver (and hence the correspondence check) runs:
  with `Ase.ZlibT.inflate` the expansion hypothesis is a theorem, so the footprint bound holds
  without any assumption about the inflater.
-/
namespace Ase.Proofs.C12
open Ase Ase.Footprint

/-- the heap footprint of every sprite loaded with the model's own inflater is within the
    allocation account and within 64 MiB + 8192 bytes per input byte — no hypothesis left -/
theorem parse_footprint_bound_inflateT (m : Profile) (bs : Bytes) (s : Sprite)
    (h : parse ZlibT.inflate m bs = .ok s) :
    footprintSprite s ≤ Alloc.reserved bs ∧ footprintSprite s ≤ Alloc.bound bs.length :=
  parse_footprint_bound ZlibT.inflate inflateT_expansionBounded m bs s h

end Ase.Proofs.C12
