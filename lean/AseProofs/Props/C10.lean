import AseProofs.Lemmas.AttachFacts
import AseProofs.Lemmas.AttachFrames
import AseProofs.Props.C01
/-
  C10  User-data records are attached to the entity whose chunk most recently preceded them.

  Spec (`Ase/Spec/Attach.lean`): a chunk sequence is viewed as a list of events `Ev`;
  `attachTarget evs i` is, declaratively, the entity of the nearest context-setting event before
  position `i` (layer / cel / slice / sprite after a legacy palette chunk / the successive tags
  after a tags chunk); `attached evs t` is the record of the last position whose target is `t`.

  Model: `processChunk` is "decode the chunk to its event, then take the abstract step"
  (`processChunk_sim`, for every chunk and every state, errors and panics included);
  the theorems below relate the state the model reaches - over chunk lists, over frames, and from
  `parseFrames` on bytes - to the declarative spec.
-/
namespace Ase.Proofs.C10
open Ase Ase.Spec

/-! ### what the final `ParseInfo` reports, entity by entity -/

/-- The user-data slots of `pi` are the declarative attachments of the event list `evs`
    (and the context is the declarative target of the next position). -/
structure Attached (evs : List Ev) (pi : ParseInfo) : Prop where
  /-- the context after the events: the entity of the nearest preceding context-setting event -/
  ctx : pi.ctx = (attachTarget evs evs.length).map toCtx
  nlayers : pi.layers.size = evs.countP Ev.isLayer
  /-- layer `k` reports the record attached to `layer k` -/
  layers : ∀ k (h : k < pi.layers.size), pi.layers[k].userData = attached evs (.layer k)
  nslices : pi.slices.size = evs.countP Ev.isSlice
  slices : ∀ k (h : k < pi.slices.size), pi.slices[k].userData = attached evs (.slice k)
  sprite : pi.spriteUserData = attached evs .sprite
  /-- cel `(f, l)` exists iff there was a cel event for it, and reports the record attached to it -/
  cels : ∀ f l, ((pi.cels[f]?).bind (FrameCels.get? l)).map (·.userData) =
    if Ev.cel f l ∈ evs then some (attached evs (.cel f l)) else none
  /-- the tags are those of the LAST tags event (at position `j`, `n` tags); tag `k` reports the
      record attached to `tag k` at a position after `j` -/
  tags : match lastTags evs with
    | none => pi.tags = none
    | some (j, n) => ∃ ts, pi.tags = some ts ∧ ts.size = n ∧
        ∀ k (h : k < ts.size), ts[k].userData = attachedSince evs j (.tag k)

theorem attached_of_inv {nf : Nat} {evs : List Ev} {pi : ParseInfo} (h : Inv nf evs (proj pi)) :
    Attached evs pi := by
  obtain ⟨hctx, _, hnl, hns, hl, hsl, hsp, hc, _, htg⟩ := h
  refine ⟨hctx, by simpa [proj] using hnl, ?_, by simpa [proj] using hns, ?_, hsp, hc, ?_⟩
  · intro k hk
    have := hl k (by simpa [proj] using hk)
    simpa [proj, hk] using this
  · intro k hk
    have := hsl k (by simpa [proj] using hk)
    simpa [proj, hk] using this
  · cases hlt : lastTags evs with
    | none =>
        rw [hlt] at htg
        simp only [proj] at htg
        cases ht : pi.tags with
        | none => rfl
        | some ts => rw [ht] at htg; simp at htg
    | some p =>
        obtain ⟨j, n⟩ := p
        rw [hlt] at htg
        obtain ⟨ts, h1, h2, h3⟩ := htg
        simp only [proj] at h1
        cases ht : pi.tags with
        | none => rw [ht] at h1; simp at h1
        | some arr =>
            rw [ht] at h1
            simp only [Option.map_some, Option.some.injEq] at h1
            subst h1
            refine ⟨arr, rfl, by simpa using h2, ?_⟩
            intro k hk
            have := h3 k (by simp at h2; omega)
            simpa [hk] using this

/-! ### `ctx_spec`: attached to the entity whose chunk most recently preceded it -/

/-- **C10 (context)**.  After the abstract machine has processed the first `i` events, its
    context is exactly the declarative "nearest preceding context-setting event" of position `i`
    (with the tag index = number of records since the tags event): so the record at position `i`
    goes to `attachTarget evs i`. -/
theorem ctx_spec (nf : Nat) (evs : List Ev) (i : Nat) (hi : i ≤ evs.length) (s : AState)
    (h : absRun (AState.init nf) (evs.take i) = .ok s) :
    s.ctx = (attachTarget evs i).map toCtx := by
  rw [attachTarget_take hi]
  exact (inv_run nf _ s h).ctx

/-- `attachTarget` is the nearest preceding context-setting event: characterisation of the
    position it is computed from. -/
theorem lastCtx_spec (evs : List Ev) (i j : Nat) :
    lastCtx evs i = some j ↔
      j < i ∧ ctxAt evs j = true ∧ ∀ j', j < j' → j' < i → ctxAt evs j' = false := by
  constructor
  · intro h
    exact ⟨(lastCtx_lt h).1, (lastCtx_lt h).2, lastCtx_greatest h⟩
  · intro ⟨h1, h2, h3⟩
    cases hl : lastCtx evs i with
    | none => have := lastCtx_none hl j h1; rw [h2] at this; cases this
    | some j0 =>
        have a := lastCtx_lt hl
        have b := lastCtx_greatest hl
        rcases Nat.lt_trichotomy j0 j with hlt | heq | hgt
        · have := b j hlt h1; rw [h2] at this; cases this
        · rw [heq]
        · have := h3 j0 hgt a.1; rw [a.2] at this; cases this

/-- the model level: the context of the `ParseInfo` reached by a successful run over a chunk
    list (started in the initial state) is the declarative target for the next position. -/
theorem ctx_spec_model {inflate : Inflate} {m : Profile} {fmt : PixelFormat} {frame nf : Nat}
    {t : UInt16} {cs : List Chunk} {pi : ParseInfo}
    (h : processChunks inflate m fmt frame (ParseInfo.new nf t) cs = .ok pi) :
    ∃ evs, All₂ (ChunkEv inflate m fmt frame) cs evs ∧
      pi.ctx = (attachTarget evs evs.length).map toCtx := by
  obtain ⟨evs, hevs, hrun⟩ := processChunks_sim cs _ pi h
  rw [proj_new] at hrun
  exact ⟨evs, hevs, (inv_run nf evs _ hrun).ctx⟩

/-! ### `userData_spec` -/

/-- **C10 (abstract machine)**: for every event sequence satisfying the side conditions of the
    quantifier, the run succeeds and the final state is the declarative attachment. -/
theorem userData_spec_abs {nf : Nat} {evs : List Ev} (h : AttachWF nf evs) :
    ∃ s, absRun (AState.init nf) evs = .ok s ∧ Inv nf evs s :=
  run_spec h

/-- **C10 (soundness, no side condition)**: whenever the model's run over the frames' chunk lists
    succeeds, every entity reports exactly its declarative attachment w.r.t. the chunks' events. -/
theorem userData_spec_sound {inflate : Inflate} {m : Profile} {fmt : PixelFormat} {nf : Nat}
    {t : UInt16} {fs : List (UInt16 × List Chunk)} {pi : ParseInfo}
    (h : runFrames inflate m fmt 0 (ParseInfo.new nf t) fs = .ok pi) :
    ∃ evss, FramesRel (ChunkEv inflate m fmt) 0 fs evss ∧ Attached evss.flatten pi := by
  obtain ⟨evss, hrel, hrun⟩ := runFrames_sim fs 0 _ pi h
  rw [proj_new] at hrun
  exact ⟨evss, hrel, attached_of_inv (inv_run nf _ _ hrun)⟩

/-- **C10 (`userData_spec`)**: for all frames' chunk lists whose chunks decode to the events
    `evss` (layer, cel, slice, tags(n), legacy palette, record, other), if the event sequence
    satisfies the side conditions `AttachWF` (every record has a preceding attachable entity, no
    entity receives two records, at most `n` records follow `tags n`, cels are distinct and in
    range; tags chunks outside frame 0 are `other`), then the model's state machine succeeds and
    in the final state layer `k` / slice `k` / cel `(f,l)` / the sprite report
    `attached evs (.layer k)` / … and tag `k` of the last tags event reports the record attached
    to `tag k` after that event. -/
theorem userData_spec {inflate : Inflate} {m : Profile} {fmt : PixelFormat} {nf : Nat}
    {t : UInt16} {fs : List (UInt16 × List Chunk)} {evss : List (List Ev)}
    (hdec : FramesRel (DecodesAs inflate m fmt) 0 fs evss) (hwf : AttachWF nf evss.flatten) :
    ∃ pi, runFrames inflate m fmt 0 (ParseInfo.new nf t) fs = .ok pi ∧
      Attached evss.flatten pi := by
  obtain ⟨s, hs, hinv⟩ := run_spec hwf
  have hc := runFrames_complete fs evss 0 (ParseInfo.new nf t) hdec
  rw [proj_new, hs] at hc
  cases hr : runFrames inflate m fmt 0 (ParseInfo.new nf t) fs with
  | ok pi =>
      rw [hr] at hc
      simp only [Res.map_ok, Res.ok.injEq] at hc
      exact ⟨pi, rfl, attached_of_inv (hc ▸ hinv)⟩
  | err e => rw [hr] at hc; simp at hc
  | panic p => rw [hr] at hc; simp at hc

/-- with a single tags event, tag `k` reports `attached evs (.tag k)` -/
theorem userData_spec_tags {evs : List Ev} {pi : ParseInfo} (h : Attached evs pi)
    (hone : evs.countP isTags ≤ 1) {j n : Nat} (hlt : lastTags evs = some (j, n)) :
    ∃ ts, pi.tags = some ts ∧ ts.size = n ∧
      ∀ k (hk : k < ts.size), ts[k].userData = attached evs (.tag k) := by
  have htg := h.tags
  rw [hlt] at htg
  obtain ⟨ts, h1, h2, h3⟩ := htg
  refine ⟨ts, h1, h2, ?_⟩
  intro k hk
  rw [h3 k hk, attachedSince_lastTags_eq evs hone j n hlt k]

/-- the same from bytes: a successful `parseFrames` (the frame loop of `parseFile`) ends in a
    state whose entities report the declarative attachments of the events of the chunks read -/
theorem userData_spec_parse {σ : Type} (S : Src σ) {inflate : Inflate} {m : Profile}
    {fmt : PixelFormat} {n : Nat} {t : UInt16} {pi : ParseInfo} {s s' : σ}
    (h : parseFrames S inflate m fmt n 0 (ParseInfo.new n t) s = .ok (pi, s')) :
    ∃ fs evss, fs.length = n ∧ FramesRel (ChunkEv inflate m fmt) 0 fs evss ∧
      Attached evss.flatten pi := by
  obtain ⟨fs, hlen, hrun⟩ := parseFrames_runFrames S n 0 _ pi s s' h
  obtain ⟨evss, hrel, hatt⟩ := userData_spec_sound hrun
  exact ⟨fs, evss, hlen, hrel, hatt⟩

/-- "and to no other entity": when no entity receives two records, entity `t` reports `u` iff
    some record `u` has target `t` (and `attachTarget` assigns each position one target). -/
theorem record_reported_by_target_only {evs : List Ev} (hnd : NoDouble evs) {t : Target}
    {u : UserData} :
    attached evs t = some u ↔ ∃ i, evs[i]? = some (.userData u) ∧ attachTarget evs i = some t :=
  attached_eq_some_iff hnd

/-! ### `unattached_none` -/

/-- **C10**: an entity that is the target of no record reports none -/
theorem unattached_none {evs : List Ev} {t : Target}
    (h : ∀ i u, evs[i]? = some (.userData u) → attachTarget evs i ≠ some t) :
    attached evs t = none :=
  attached_none_of_no_record h

/-- the model level, for each kind of entity -/
theorem unattached_none_model {evs : List Ev} {pi : ParseInfo} (h : Attached evs pi) :
    (∀ k (hk : k < pi.layers.size),
      (∀ i u, evs[i]? = some (.userData u) → attachTarget evs i ≠ some (.layer k)) →
      pi.layers[k].userData = none) ∧
    (∀ k (hk : k < pi.slices.size),
      (∀ i u, evs[i]? = some (.userData u) → attachTarget evs i ≠ some (.slice k)) →
      pi.slices[k].userData = none) ∧
    ((∀ i u, evs[i]? = some (.userData u) → attachTarget evs i ≠ some .sprite) →
      pi.spriteUserData = none) ∧
    (∀ f l row c, pi.cels[f]? = some row → FrameCels.get? l row = some c →
      (∀ i u, evs[i]? = some (.userData u) → attachTarget evs i ≠ some (.cel f l)) →
      c.userData = none) ∧
    (∀ ts k (hk : k < ts.size), pi.tags = some ts →
      (∀ i u, evs[i]? = some (.userData u) → attachTarget evs i ≠ some (.tag k)) →
      ts[k].userData = none) := by
  refine ⟨?_, ?_, ?_, ?_, ?_⟩
  · intro k hk hno
    rw [h.layers k hk]; exact unattached_none hno
  · intro k hk hno
    rw [h.slices k hk]; exact unattached_none hno
  · intro hno
    rw [h.sprite]; exact unattached_none hno
  · intro f l row c hrow hget hno
    have := h.cels f l
    rw [hrow] at this
    simp only [Option.bind_some, hget, Option.map_some] at this
    by_cases hm : Ev.cel f l ∈ evs
    · simp only [hm, if_true, Option.some.injEq] at this
      rw [this]; exact unattached_none hno
    · simp [hm] at this
  · intro ts k hk hts hno
    have htg := h.tags
    cases hlt : lastTags evs with
    | none => rw [hlt] at htg; simp only at htg; rw [htg] at hts; cases hts
    | some p =>
        obtain ⟨j, n⟩ := p
        rw [hlt] at htg
        obtain ⟨ts', h1, _, h3⟩ := htg
        rw [hts] at h1
        injection h1 with h1
        subst h1
        rw [h3 k hk]
        exact attachedSince_none_of_no_record hno

/-! ### `other_transparent` -/

/-- **C10**: inserting any number of `other` events (new palette, colour profile, external
    files, tileset, ignorable chunks, tags chunks outside frame 0) at any position changes no
    entity's attachment … -/
theorem other_transparent (evs : List Ev) (k n : Nat) (t : Target) :
    attached (insertOther evs k n) t = attached evs t :=
  attached_insertOther evs k n t

/-- … the records keep their targets (positions after the insertion point shift by `n`) … -/
theorem other_transparent_target (evs : List Ev) (k n i : Nat) (hk : k ≤ evs.length)
    (hi : i ≤ evs.length) :
    attachTarget (insertOther evs k n) (if i < k then i else i + n) = attachTarget evs i := by
  by_cases h : i < k
  · simp only [h, if_true]
    exact attachTarget_insertOther_before evs k n i hk (by omega)
  · simp only [h, if_false]
    exact attachTarget_insertOther_after evs k n i (by omega) hi

/-- … and the abstract machine does not see them at all. -/
theorem other_transparent_run (s : AState) (evs : List Ev) (k n : Nat) :
    absRun s (insertOther evs k n) = absRun s evs := by
  have hrep : ∀ (s : AState) (n : Nat), absRun s (List.replicate n Ev.other) = .ok s := by
    intro s n
    induction n with
    | zero => rfl
    | succ n ih => simp only [List.replicate_succ, absRun, absStep]; exact ih
  unfold insertOther
  conv => rhs; rw [← List.take_append_drop k evs]
  rw [absRun_append, absRun_append, absRun_append]
  cases absRun s (evs.take k) with
  | ok s1 => simp only [Res.bind_ok', hrep]
  | err e => rfl
  | panic p => rfl

/-- the model: a chunk whose event is `other` leaves the attachment state of `ParseInfo`
    (all user-data slots and the context) untouched -/
theorem other_chunk_transparent {inflate : Inflate} {m : Profile} {fmt : PixelFormat}
    {frame : Nat} {pi : ParseInfo} {c : Chunk}
    (h : decodeEv inflate m fmt frame pi.palette.isNone c = .ok .other) :
    ∃ pi', processChunk inflate m fmt frame pi c = .ok pi' ∧ proj pi' = proj pi := by
  have hs := processChunk_sim inflate m fmt frame pi c
  rw [h] at hs
  simp only [Res.bind_ok', absStep] at hs
  cases hp : processChunk inflate m fmt frame pi c with
  | ok pi' =>
      rw [hp] at hs
      simp only [Res.map_ok, Res.ok.injEq] at hs
      exact ⟨pi', rfl, hs⟩
  | err e => rw [hp] at hs; simp at hs
  | panic p => rw [hp] at hs; simp at hs

/-! ### `flags_text_colour` -/

/-- **C10**: text and colour are each reported only when their flag is set - for the encoding of
    any flags word, text and colour (restating `C01.userData_roundtrip`) -/
theorem flags_text_colour (flags : UInt32) (text : Bytes) (color : RGBA) (pad : Bytes)
    (hlen : flags.toNat % 2 = 1 → text.length < 65536)
    (hutf : flags.toNat % 2 = 1 → validUtf8 text = true) :
    ∃ ud, runChunk parseUserDataChunk (Spec.encUserData flags text color ++ pad) = .ok ud ∧
      (ud.text = if flags.toNat % 2 = 1 then some text else none) ∧
      (ud.color = if flags.toNat / 2 % 2 = 1 then some color else none) :=
  ⟨_, C01.userData_roundtrip flags text color pad hlen hutf, rfl, rfl⟩

/-- … and on the decoder side for EVERY byte string: whenever the user-data decoder succeeds, a
    text is reported iff bit 0 of the flags word (the first four bytes) is set, a colour iff
    bit 1 is set. -/
theorem flags_text_colour_decode (data : Bytes) (ud : UserData)
    (h : runChunk parseUserDataChunk data = .ok ud) :
    ∃ flags rest, readU32 bytesSrc data = .ok (flags, rest) ∧
      (ud.text.isSome = true ↔ flags.toNat % 2 = 1) ∧
      (ud.color.isSome = true ↔ flags.toNat / 2 % 2 = 1) := by
  unfold runChunk at h
  cases hr : parseUserDataChunk data with
  | err e => rw [hr] at h; simp at h
  | panic p => rw [hr] at h; simp at h
  | ok r =>
      obtain ⟨ud', s'⟩ := r
      rw [hr] at h
      simp only [Res.map_ok, Res.ok.injEq] at h
      subst h
      unfold parseUserDataChunk at hr
      rw [RdS.bind_run] at hr
      cases hf : readU32 bytesSrc data with
      | err e => rw [hf] at hr; cases hr
      | panic p => rw [hf] at hr; cases hr
      | ok r1 =>
          obtain ⟨flags, rest⟩ := r1
          rw [hf] at hr
          simp only at hr
          refine ⟨flags, rest, rfl, ?_⟩
          refine (?hp : Post (fun ud : UserData =>
            (ud.text.isSome = true ↔ flags.toNat % 2 = 1) ∧
            (ud.color.isSome = true ↔ flags.toNat / 2 % 2 = 1)) _) rest ud' s' hr
          have hcol : ∀ (text : Option Bytes) (b1 : Bool),
              b1 = (flags.toNat / 2 % 2 == 1) → (text.isSome = true ↔ flags.toNat % 2 = 1) →
              (c : Rd (Option RGBA)) → Post (fun c => c.isSome = b1) c →
              Post (fun ud : UserData =>
                (ud.text.isSome = true ↔ flags.toNat % 2 = 1) ∧
                (ud.color.isSome = true ↔ flags.toNat / 2 % 2 = 1))
                (c >>= fun color => pure { text := text, color := color }) := by
            intro text b1 hb1 ht c hc
            refine Post.bind' hc (fun color hcol => Post.pure ⟨ht, ?_⟩)
            simp only [hcol, hb1, beq_iff_eq]
          have hrgba : Post (fun c : Option RGBA => c.isSome = true)
              (do
                let r ← readU8 bytesSrc
                let g ← readU8 bytesSrc
                let b ← readU8 bytesSrc
                let a ← readU8 bytesSrc
                pure (some (RGBA.mk r g b a))) :=
            Post.bind (fun _ => Post.bind (fun _ => Post.bind (fun _ =>
              Post.bind (fun _ => Post.pure rfl))))
          have hnone : Post (fun c : Option RGBA => c.isSome = false) (pure none : Rd _) :=
            Post.pure rfl
          split
          · rename_i h0
            have h0' : flags.toNat % 2 = 1 := by simpa using h0
            refine Post.bind' (P := fun t : Option Bytes => t.isSome = true)
              (Post.bind (fun _ => Post.pure rfl)) (fun text ht => ?_)
            have ht' : text.isSome = true ↔ flags.toNat % 2 = 1 := by simp [ht, h0']
            split
            · rename_i h1
              exact hcol text true h1.symm ht' _ hrgba
            · rename_i h1
              exact hcol text false (by simpa using h1) ht' _ hnone
          · rename_i h0
            have h0' : ¬ flags.toNat % 2 = 1 := by simpa using h0
            refine Post.bind' (P := fun t : Option Bytes => t = none)
              (Post.pure rfl) (fun text ht => ?_)
            have ht' : text.isSome = true ↔ flags.toNat % 2 = 1 := by simp [ht, h0']
            split
            · rename_i h1
              exact hcol text true h1.symm ht' _ hrgba
            · rename_i h1
              exact hcol text false (by simpa using h1) ht' _ hnone

/-! ### non-vacuity -/

def u1 : UserData := ⟨some [0x61], none⟩
def u2 : UserData := ⟨none, some ⟨1, 2, 3, 4⟩⟩
def u3 : UserData := ⟨some [], some ⟨0, 0, 0, 0⟩⟩
def u4 : UserData := ⟨none, none⟩

/-- layer, ignorable, record, tags(2), record, record, cel, record -/
def demo : List Ev :=
  [.layer, .other, .userData u1, .tags 2, .userData u2, .userData u3, .cel 0 0, .userData u4]

example : AttachWF 1 demo := by decide
example : (List.range 8).map (attachTarget demo) =
    [none, some (.layer 0), some (.layer 0), some (.layer 0), some (.tag 0), some (.tag 1),
     some (.tag 2), some (.cel 0 0)] := by decide
example : attached demo (.layer 0) = some u1 := by decide
example : attached demo (.tag 0) = some u2 := by decide
example : attached demo (.tag 1) = some u3 := by decide
example : attached demo (.cel 0 0) = some u4 := by decide
example : attached demo .sprite = none := by decide
example : attached demo (.layer 1) = none := by decide
example : demo.countP isTags ≤ 1 := by decide
/-- a third record after `tags 2` violates the side conditions -/
example : ¬ AttachWF 1 [.tags 2, .userData u1, .userData u2, .userData u3] := by decide
/-- a record with nothing before it violates the side conditions -/
example : ¬ AttachWF 1 [.other, .userData u1] := by decide
/-- the abstract machine on the demo sequence -/
example : ∃ s, absRun (AState.init 1) demo = .ok s ∧ s.layers = [some u1] ∧
    s.tags = some [some u2, some u3] ∧ s.cels 0 0 = some (some u4) ∧ s.sprite = none ∧
    s.ctx = some (.cel 0 0) := ⟨_, rfl, rfl, rfl, rfl, rfl, rfl⟩

/-! non-vacuity of the model-level theorem: concrete chunks (a layer chunk, a linked cel chunk for
    layer 0, a mask chunk, a record with a colour) that decode to the events, whatever the
    palette state -/

def demoInflate : Inflate := fun _ => .err .invalid
def demoLayerBytes : Bytes := List.replicate 18 0
def demoCelBytes : Bytes := [0, 0, 0, 0, 0, 0, 255, 1, 0, 0, 0, 0, 0, 0, 0, 0, 0, 0]
def demoUdBytes : Bytes := [2, 0, 0, 0, 1, 2, 3, 4]
def demoFrames : List (UInt16 × List Chunk) :=
  [(100, [⟨.layer, demoLayerBytes⟩, ⟨.cel, demoCelBytes⟩, ⟨.mask, []⟩, ⟨.userData, demoUdBytes⟩])]
def demoEvss : List (List Ev) :=
  [[.layer, .cel 0 0, .other, .userData ⟨none, some ⟨1, 2, 3, 4⟩⟩]]

theorem demo_decodes :
    FramesRel (DecodesAs demoInflate Profile.release .rgba) 0 demoFrames demoEvss := by
  refine ⟨?_, trivial⟩
  refine .cons ?_ (.cons ?_ (.cons ?_ (.cons ?_ .nil))) <;> intro b <;> rfl

example : AttachWF 1 demoEvss.flatten := by decide

/-- `userData_spec` applied: the model loads the four chunks and the cel reports the record -/
example : ∃ pi, runFrames demoInflate Profile.release .rgba 0 (ParseInfo.new 1 100) demoFrames
      = .ok pi ∧ Attached demoEvss.flatten pi ∧
    attached demoEvss.flatten (.cel 0 0) = some ⟨none, some ⟨1, 2, 3, 4⟩⟩ ∧
    attached demoEvss.flatten (.layer 0) = none := by
  obtain ⟨pi, h1, h2⟩ := userData_spec (nf := 1) (t := 100) demo_decodes (by decide)
  exact ⟨pi, h1, h2, by decide, by decide⟩

end Ase.Proofs.C10
