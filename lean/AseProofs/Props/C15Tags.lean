import AseProofs.Props.C15
import AseProofs.Props.C10Tags
/-
  C15, animation direction, chunk- and file-level forms of `tagDirection_supported`: a Tags
  chunk holding a tag with a direction byte other than 0/1/2 does not decode - whatever the
  tag's frame range (one-frame tags and from > to included), wherever the tag is in the chunk,
  and in whichever frame the chunk is (Tags chunks of later frames are decoded, then ignored).
-/
namespace Ase.Proofs.C15
open Ase Ase.Proofs.C10

theorem post_parseTag_direction : Post (fun t : Tag => t.direction ≤ 2) parseTag :=
  fun bs t r h => tagDirection_supported bs t r h

theorem post_parseTagsChunk_direction :
    Post (fun ts : List Tag => ∀ t ∈ ts, t.direction ≤ 2) parseTagsChunk := by
  unfold parseTagsChunk
  apply Post.bind; intro n
  apply Post.bind; intro _
  exact post_rdRepeat post_parseTag_direction n.toNat

/-- **chunk level**: every tag of a Tags chunk that decodes has direction 0, 1 or 2 -/
theorem tagsChunk_bad_direction_fails (data : Bytes) (ts : List Tag)
    (h : runChunk parseTagsChunk data = .ok ts) : ∀ t ∈ ts, t.direction ≤ 2 :=
  post_runChunk post_parseTagsChunk_direction h

/-- the same with the tag's position: tag `k` of the chunk, whatever its frame range -/
theorem tagsChunk_direction_at (data : Bytes) (ts : List Tag) (k : Nat)
    (h : runChunk parseTagsChunk data = .ok ts) (hk : k < ts.length) : ts[k].direction ≤ 2 :=
  tagsChunk_bad_direction_fails data ts h ts[k] (List.getElem_mem hk)

/-- **file level**: in ANY frame, `processChunk` succeeds on a Tags chunk only if the chunk
    decodes, and then all its tags have direction ≤ 2 (in frame 0 they become the sprite's tags;
    in a later frame the state is left unchanged) -/
theorem processChunk_tags_bad_direction (inflate : Inflate) (m : Profile) (fmt : PixelFormat)
    (frame : Nat) (pi pi' : ParseInfo) (c : Chunk) (hty : c.ty = .tags)
    (h : processChunk inflate m fmt frame pi c = .ok pi') :
    ∃ ts, runChunk parseTagsChunk c.data = .ok ts ∧ (∀ t ∈ ts, t.direction ≤ 2) ∧
      pi' = (if frame = 0 then { pi with tags := some ts.toArray, ctx := some (.tag 0) }
             else pi) := by
  rw [processChunk_tags inflate m fmt frame pi c hty] at h
  cases hr : runChunk parseTagsChunk c.data with
  | ok ts =>
      rw [hr] at h
      simp only [Res.map_ok, Res.ok.injEq] at h
      exact ⟨ts, rfl, tagsChunk_bad_direction_fails c.data ts hr, h.symm⟩
  | err e => rw [hr] at h; simp at h
  | panic s => rw [hr] at h; simp at h

/-- a Tags chunk with a bad direction makes `processChunk` fail in every frame -/
theorem processChunk_tags_bad_direction_fails (inflate : Inflate) (m : Profile)
    (fmt : PixelFormat) (frame : Nat) (pi : ParseInfo) (c : Chunk) (hty : c.ty = .tags)
    (hbad : ∀ ts, runChunk parseTagsChunk c.data = .ok ts → ∃ t ∈ ts, 2 < t.direction) :
    ∀ pi', processChunk inflate m fmt frame pi c ≠ .ok pi' := by
  intro pi' h
  obtain ⟨ts, h1, h2, _⟩ := processChunk_tags_bad_direction inflate m fmt frame pi pi' c hty h
  obtain ⟨t, ht, hd⟩ := hbad ts h1
  exact absurd (h2 t ht) (by omega)

/-! ### non-vacuity -/

/-- the bytes of a tag `f..t` with direction byte `d` and an empty name -/
def dirTagBytes (f t d : UInt8) : Bytes :=
  [f, 0, t, 0, d, 0, 0] ++ zeros 6 ++ [0, 0, 0, 0] ++ [0, 0]

/-- a one-frame tag (5..5) with direction byte 3: the chunk is refused -/
example : runChunk parseTagsChunk ([1, 0] ++ zeros 8 ++ dirTagBytes 5 5 3) = .err .invalid := by
  decide

/-- the same tag with direction 2 (ping-pong) decodes -/
example : runChunk parseTagsChunk ([1, 0] ++ zeros 8 ++ dirTagBytes 5 5 2) =
    .ok [⟨[], 5, 5, 0, 2, none⟩] := by decide

/-- second position, from > to: still refused -/
example : runChunk parseTagsChunk
    ([2, 0] ++ zeros 8 ++ dirTagBytes 0 1 0 ++ dirTagBytes 4 2 3) = .err .invalid := by decide

/-- … and refused by `processChunk` in frame 0 and in a later frame alike -/
example (frame : Nat) (pi : ParseInfo) :
    processChunk exInflate .release .rgba frame pi
      ⟨.tags, [1, 0] ++ zeros 8 ++ dirTagBytes 5 5 3⟩ = .err .invalid := by
  rw [processChunk_tags _ _ _ _ _ _ rfl]
  have : runChunk parseTagsChunk ([1, 0] ++ zeros 8 ++ dirTagBytes 5 5 3) = .err .invalid := by
    decide
  rw [this]; rfl

end Ase.Proofs.C15
