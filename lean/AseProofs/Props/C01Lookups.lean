import Ase.Render
/-
  C01, lookup clauses: "Lookups by name return the lowest-numbered match, optional lookups
  return nothing when out of range, and iteration visits every entity exactly once in index
  order."
-/
namespace Ase.Proofs.C01
open Ase

/-! ### the generic first-match lemma -/

theorem findIdx?_eq_some_iff' {α} (p : α → Bool) (l : List α) (i : Nat) :
    l.findIdx? p = some i ↔
      ∃ h : i < l.length, p l[i] = true ∧ ∀ j (hj : j < i), p (l[j]'(Nat.lt_trans hj h)) = false := by
  rw [List.findIdx?_eq_some_iff_getElem]
  constructor
  · rintro ⟨h, hp, hall⟩
    exact ⟨h, hp, fun j hj => by simpa using hall j hj⟩
  · rintro ⟨h, hp, hall⟩
    exact ⟨h, hp, fun j hj => by simpa using hall j hj⟩

/-! ### `layer_by_name` -/

/-- **`layer_by_name` returns the lowest-numbered match**: the answer is `some i` exactly when
    layer `i` exists, carries the name, and no lower-numbered layer does -/
theorem layerByName_spec (s : Sprite) (n : Bytes) (i : Nat) :
    s.layerByName n = some i ↔
      ∃ h : i < s.layers.size, s.layers[i].name = n ∧
        ∀ j (hj : j < i), (s.layers[j]'(Nat.lt_trans hj h)).name ≠ n := by
  unfold Sprite.layerByName
  rw [findIdx?_eq_some_iff']
  simp only [Array.length_toList, Array.getElem_toList, beq_iff_eq, beq_eq_false_iff_ne]

/-- the same with optional indexing -/
theorem layerByName_spec' (s : Sprite) (n : Bytes) (i : Nat) :
    s.layerByName n = some i ↔
      (∃ l, s.layers[i]? = some l ∧ l.name = n) ∧
        ∀ j < i, ∀ l, s.layers[j]? = some l → l.name ≠ n := by
  rw [layerByName_spec]
  constructor
  · rintro ⟨h, hn, hall⟩
    refine ⟨⟨s.layers[i], by simp [h], hn⟩, ?_⟩
    intro j hj l hl
    have hj' : j < s.layers.size := Nat.lt_trans hj h
    rw [Array.getElem?_eq_getElem hj'] at hl
    cases hl
    exact hall j hj
  · rintro ⟨⟨l, hl, hn⟩, hall⟩
    obtain ⟨h, rfl⟩ := Array.getElem?_eq_some_iff.mp hl
    refine ⟨h, hn, ?_⟩
    intro j hj
    exact hall j hj _ (Array.getElem?_eq_getElem (Nat.lt_trans hj h))

/-- **`layer_by_name` answers `None` exactly when no layer has the name** -/
theorem layerByName_none (s : Sprite) (n : Bytes) :
    s.layerByName n = none ↔ ∀ l ∈ s.layers, l.name ≠ n := by
  unfold Sprite.layerByName
  rw [List.findIdx?_eq_none_iff]
  simp only [Array.mem_toList_iff, beq_eq_false_iff_ne]

/-- a found id is a valid layer id -/
theorem layerByName_lt (s : Sprite) (n : Bytes) (i : Nat) (h : s.layerByName n = some i) :
    i < s.numLayers := by
  obtain ⟨h, _⟩ := (layerByName_spec s n i).mp h
  exact h

/-! ### `tag_by_name` -/

/-- **`tag_by_name` returns the lowest-numbered match** -/
theorem tagByName_spec (s : Sprite) (n : Bytes) (i : Nat) :
    s.tagByName n = some i ↔
      ∃ h : i < s.tags.size, s.tags[i].name = n ∧
        ∀ j (hj : j < i), (s.tags[j]'(Nat.lt_trans hj h)).name ≠ n := by
  unfold Sprite.tagByName
  rw [findIdx?_eq_some_iff']
  simp only [Array.length_toList, Array.getElem_toList, beq_iff_eq, beq_eq_false_iff_ne]

theorem tagByName_spec' (s : Sprite) (n : Bytes) (i : Nat) :
    s.tagByName n = some i ↔
      (∃ t, s.tags[i]? = some t ∧ t.name = n) ∧
        ∀ j < i, ∀ t, s.tags[j]? = some t → t.name ≠ n := by
  rw [tagByName_spec]
  constructor
  · rintro ⟨h, hn, hall⟩
    refine ⟨⟨s.tags[i], by simp [h], hn⟩, ?_⟩
    intro j hj l hl
    have hj' : j < s.tags.size := Nat.lt_trans hj h
    rw [Array.getElem?_eq_getElem hj'] at hl
    cases hl
    exact hall j hj
  · rintro ⟨⟨l, hl, hn⟩, hall⟩
    obtain ⟨h, rfl⟩ := Array.getElem?_eq_some_iff.mp hl
    refine ⟨h, hn, ?_⟩
    intro j hj
    exact hall j hj _ (Array.getElem?_eq_getElem (Nat.lt_trans hj h))

/-- **`tag_by_name` answers `None` exactly when no tag has the name** -/
theorem tagByName_none (s : Sprite) (n : Bytes) :
    s.tagByName n = none ↔ ∀ t ∈ s.tags, t.name ≠ n := by
  unfold Sprite.tagByName
  rw [List.findIdx?_eq_none_iff]
  simp only [Array.mem_toList_iff, beq_eq_false_iff_ne]

/-! ### optional lookups -/

/-- **`get_tag(i)` is `None` exactly when `i` is out of range** -/
theorem getTag_spec (s : Sprite) (i : Nat) : s.tags[i]? = none ↔ s.tags.size ≤ i := by
  simp

/-- and in range it is the `i`-th tag -/
theorem getTag_some (s : Sprite) (i : Nat) (h : i < s.tags.size) : s.tags[i]? = some s.tags[i] := by
  simp [h]

/-- `tileset(id)` style lookups in the id-keyed maps: nothing for an id that was never inserted -/
theorem tileset?_none (s : Sprite) (id : Nat) :
    s.tileset? id = none ↔ ∀ p ∈ s.tilesets, p.1 ≠ id := by
  unfold Sprite.tileset? assocGet?
  rw [Option.map_eq_none_iff, List.find?_eq_none]
  simp only [beq_iff_eq]

/-! ### `LayersIter` -/

/-- `k` successive calls of `LayersIter::next`, starting in state `state` -/
def iterate (s : Sprite) : Nat → Nat → List (Option Nat)
  | 0, _ => []
  | k + 1, state => (s.layersIterNext state).1 :: iterate s k (s.layersIterNext state).2

theorem iterate_exhausted (s : Sprite) (e state : Nat) (h : s.numLayers ≤ state) :
    iterate s e state = List.replicate e none := by
  induction e with
  | zero => rfl
  | succ e ih =>
      have : ¬ state < s.numLayers := Nat.not_lt.mpr h
      simp only [iterate, Sprite.layersIterNext, this, if_false, List.replicate_succ, ih]

theorem iterate_from (s : Sprite) (e : Nat) : ∀ (k state : Nat), state + k = s.numLayers →
    iterate s (k + e) state = (List.range' state k).map some ++ List.replicate e none := by
  intro k
  induction k with
  | zero =>
      intro state h
      simp only [Nat.zero_add, List.range'_zero, List.map_nil, List.nil_append]
      exact iterate_exhausted s e state (by omega)
  | succ k ih =>
      intro state h
      have hlt : state < s.numLayers := by omega
      have : k + 1 + e = (k + e) + 1 := by omega
      rw [this]
      simp only [iterate, Sprite.layersIterNext, hlt, if_true, List.range'_succ, List.map_cons,
        List.cons_append]
      rw [ih (state + 1) (by omega)]

/-- **iteration visits every layer exactly once in index order**: `numLayers + e` calls of
    `next` from a fresh iterator yield `Some(0), …, Some(numLayers - 1)` and then `None` for
    ever -/
theorem layersIter_spec (s : Sprite) (e : Nat) :
    iterate s (s.numLayers + e) 0 = (List.range s.numLayers).map some ++ List.replicate e none := by
  rw [iterate_from s e s.numLayers 0 (by omega), List.range_eq_range']

/-- the values yielded are pairwise distinct and are exactly the valid layer ids -/
theorem layersIter_nodup (s : Sprite) : ((List.range s.numLayers).map some).Nodup := by
  refine List.Pairwise.map some ?_ (List.nodup_range (n := s.numLayers))
  intro a b hab h
  exact hab (Option.some.inj h)

theorem layersIter_complete (s : Sprite) (i : Nat) :
    some i ∈ iterate s (s.numLayers + 0) 0 ↔ i < s.numLayers := by
  rw [layersIter_spec]
  simp

end Ase.Proofs.C01
