import AseProofs.Props.C07
/-
  C07 across frame boundaries.

  The user-data context (`ParseInfo.ctx`) is carried from one frame to the next: the context left
  by the last item of frame `k` is what a `.userData` item at the start of frame `k+1` attaches to.
  The statements of `C07.lean` about a redundant legacy palette and about the order of cel items
  are stated within one frame (or at the very end of the file).  Here: the same statements with
  any number of frames following, under the hypothesis (`CtxDead`) that those frames overwrite the
  context before reading it.
-/
namespace Ase.Proofs.C07
open Ase Ase.Proofs Ase.Proofs.C01 Ase.Proofs.WholeFile

/-! ### 1. the context is dead on entry to a list of frames -/

/-- the context with which frames `frame, frame+1, …` are entered is never read: scanning the items
    of these frames in order, a context-setting item comes before any item that is not
    context-neutral -/
def CtxDead : Nat → List (UInt16 × List Spec.SItem) → Prop
  | _, [] => True
  | frame, (_, items) :: rest =>
      (∃ mid it tail, items = mid ++ it :: tail ∧ (∀ x ∈ mid, ctxNeutral frame x = true) ∧
        setsCtx frame it = true)
      ∨ ((∀ x ∈ items, ctxNeutral frame x = true) ∧ CtxDead (frame + 1) rest)

/-- scan of the items of one frame: `some true` — a context-setting item is reached through
    context-neutral items only; `some false` — an item that may read the context is reached first;
    `none` — all items are context-neutral -/
def scanItems (frame : Nat) : List Spec.SItem → Option Bool
  | [] => none
  | x :: t =>
      if setsCtx frame x then some true
      else if ctxNeutral frame x then scanItems frame t
      else some false

/-- the decidable version of `CtxDead` -/
def ctxDeadB : Nat → List (UInt16 × List Spec.SItem) → Bool
  | _, [] => true
  | frame, (_, items) :: rest =>
      match scanItems frame items with
      | some b => b
      | none => ctxDeadB (frame + 1) rest

theorem setsCtx_not_neutral (frame : Nat) (x : Spec.SItem) (h : setsCtx frame x = true) :
    ctxNeutral frame x = false := by
  cases x <;> simp_all [setsCtx, ctxNeutral]

theorem scanItems_true (frame : Nat) : ∀ items : List Spec.SItem,
    scanItems frame items = some true ↔
      ∃ mid it tail, items = mid ++ it :: tail ∧ (∀ x ∈ mid, ctxNeutral frame x = true) ∧
        setsCtx frame it = true
  | [] => by simp [scanItems]
  | x :: t => by
      unfold scanItems
      cases hs : setsCtx frame x with
      | true =>
          simp only [if_true, true_iff]
          exact ⟨[], x, t, rfl, by simp, hs⟩
      | false =>
          cases hn : ctxNeutral frame x with
          | true =>
              simp only [if_true, Bool.false_eq_true, if_false]
              rw [scanItems_true frame t]
              constructor
              · rintro ⟨mid, it, tail, rfl, hmid, hit⟩
                refine ⟨x :: mid, it, tail, rfl, ?_, hit⟩
                intro y hy
                rcases List.mem_cons.mp hy with rfl | hy
                · exact hn
                · exact hmid y hy
              · rintro ⟨mid, it, tail, heq, hmid, hit⟩
                cases mid with
                | nil =>
                    simp only [List.nil_append, List.cons.injEq] at heq
                    rw [← heq.1, hs] at hit
                    cases hit
                | cons y mid' =>
                    simp only [List.cons_append, List.cons.injEq] at heq
                    exact ⟨mid', it, tail, heq.2,
                      fun z hz => hmid z (List.mem_cons_of_mem _ hz), hit⟩
          | false =>
              simp only [Bool.false_eq_true, if_false]
              constructor
              · intro h; cases h
              · rintro ⟨mid, it, tail, heq, hmid, hit⟩
                cases mid with
                | nil =>
                    simp only [List.nil_append, List.cons.injEq] at heq
                    rw [← heq.1, hs] at hit
                    cases hit
                | cons y mid' =>
                    simp only [List.cons_append, List.cons.injEq] at heq
                    have := hmid y List.mem_cons_self
                    rw [← heq.1, hn] at this
                    cases this

theorem scanItems_none (frame : Nat) : ∀ items : List Spec.SItem,
    scanItems frame items = none ↔ ∀ x ∈ items, ctxNeutral frame x = true
  | [] => by simp [scanItems]
  | x :: t => by
      unfold scanItems
      cases hs : setsCtx frame x with
      | true =>
          have := setsCtx_not_neutral frame x hs
          simp [this]
      | false =>
          cases hn : ctxNeutral frame x with
          | true => simp [hn, scanItems_none frame t]
          | false => simp [hn]

theorem ctxDeadB_iff : ∀ (frames : List (UInt16 × List Spec.SItem)) (frame : Nat),
    ctxDeadB frame frames = true ↔ CtxDead frame frames
  | [], _ => by simp [ctxDeadB, CtxDead]
  | (d, items) :: rest, frame => by
      simp only [ctxDeadB, CtxDead]
      rw [← scanItems_true frame items, ← scanItems_none frame items, ← ctxDeadB_iff rest]
      cases h : scanItems frame items with
      | none => simp
      | some b => cases b <;> simp

instance (frame : Nat) (frames : List (UInt16 × List Spec.SItem)) :
    Decidable (CtxDead frame frames) :=
  decidable_of_iff _ (ctxDeadB_iff frames frame)

/-! ### 2. a dead context is unobservable -/

/-- context-neutral items commute with a change of the context -/
theorem runItems_neutral (frame : Nat) (c : Option UDCtx) : ∀ (items : List Spec.SItem)
    (_ : ∀ x ∈ items, ctxNeutral frame x = true) (pi : ParseInfo),
    Spec.runItems frame (setCtx c pi) items = (Spec.runItems frame pi items).map (setCtx c)
  | [], _, _ => rfl
  | x :: t, h, pi => by
      simp only [Spec.runItems, stepSem_neutral c frame pi x (h x List.mem_cons_self)]
      cases Spec.stepSem frame pi x with
      | ok pi' => exact runItems_neutral frame c t (fun y hy => h y (List.mem_cons_of_mem _ hy)) pi'
      | err e => rfl
      | panic s => rfl

/-- storing the frame duration commutes with a change of the context -/
theorem runFrame_setCtx (frame : Nat) (d : UInt16) (c : Option UDCtx) (pi : ParseInfo)
    (items : List Spec.SItem) :
    Spec.runFrame frame d (setCtx c pi) items =
      Spec.runItems frame (setCtx c { pi with frameTimes := pi.frameTimes.set! frame d }) items :=
  rfl

theorem runFrames_cons (frame : Nat) (pi : ParseInfo) (d : UInt16) (items : List Spec.SItem)
    (rest : List (UInt16 × List Spec.SItem)) :
    Spec.runFrames frame pi ((d, items) :: rest) =
      (Spec.runFrame frame d pi items >>= fun q => Spec.runFrames (frame + 1) q rest) := by
  simp only [Spec.runFrames]
  cases Spec.runFrame frame d pi items <;> rfl

theorem map_map_setCtx (x c : Option UDCtx) (r : Res ParseInfo) :
    (r.map (setCtx c)).map (setCtx x) = r.map (setCtx x) := by
  cases r <;> rfl

/-- **a dead context is unobservable** (state level): frames that overwrite the context before
    reading it reach the same state, up to the final context, from states that differ in the
    context only — and fail with the same error otherwise -/
theorem runFrames_ctx_dead_state (x : Option UDCtx) :
    ∀ (frames : List (UInt16 × List Spec.SItem)) (frame : Nat) (_ : CtxDead frame frames)
      (c : Option UDCtx) (pi : ParseInfo),
      (Spec.runFrames frame (setCtx c pi) frames).map (setCtx x) =
        (Spec.runFrames frame pi frames).map (setCtx x)
  | [], _, _, _, _ => rfl
  | (d, items) :: rest, frame, hd, c, pi => by
      rw [runFrames_cons, runFrames_cons, runFrame_setCtx]
      rcases hd with ⟨mid, it, tail, rfl, hmid, hit⟩ | ⟨hall, hrest⟩
      · rw [runItems_ctx_overwritten frame mid it tail hmid hit c]
        rfl
      · rw [runItems_neutral frame c items hall]
        show ((Spec.runFrame frame d pi items).map (setCtx c) >>= _).map _ = _
        cases Spec.runFrame frame d pi items with
        | ok q => exact runFrames_ctx_dead_state x rest (frame + 1) hrest c q
        | err e => rfl
        | panic s => rfl

theorem bind_validate_of_modCtx (h : Header) (fmt : PixelFormat) {x : Option UDCtx}
    {r1 r2 : Res ParseInfo} (heq : r1.map (setCtx x) = r2.map (setCtx x)) :
    (r1 >>= validate h fmt) = (r2 >>= validate h fmt) :=
  bind_congr_modCtx heq (fun c q => validate_setCtx h fmt c q)

/-- **a dead context is unobservable**: the loaded sprite (or the error) does not depend on the
    context with which frames that overwrite it before reading it are entered -/
theorem runFrames_ctx_dead (h : Header) (fmt : PixelFormat) :
    ∀ (frames : List (UInt16 × List Spec.SItem)) (frame : Nat) (_ : CtxDead frame frames)
      (c : Option UDCtx) (pi : ParseInfo),
      (Spec.runFrames frame (setCtx c pi) frames >>= validate h fmt) =
        (Spec.runFrames frame pi frames >>= validate h fmt) :=
  fun frames frame hd c pi =>
    bind_validate_of_modCtx h fmt (runFrames_ctx_dead_state none frames frame hd c pi)

/-- two item lists for frame `k` that lead to the same state up to the context, followed by frames
    for which the context is dead, give the same result -/
theorem runFrames_congr_modCtx (h : Header) (fmt : PixelFormat) (k : Nat) (d : UInt16)
    (pi : ParseInfo) (items items' : List Spec.SItem) (later : List (UInt16 × List Spec.SItem))
    (hdead : CtxDead (k + 1) later) (x : Option UDCtx)
    (heq : (Spec.runFrame k d pi items).map (setCtx x) = (Spec.runFrame k d pi items').map (setCtx x)) :
    (Spec.runFrames k pi ((d, items) :: later) >>= validate h fmt) =
      (Spec.runFrames k pi ((d, items') :: later) >>= validate h fmt) := by
  rw [runFrames_cons, runFrames_cons]
  apply bind_validate_of_modCtx h fmt (x := none)
  simp only [map_bind]
  exact bind_congr_modCtx heq (fun c q => runFrames_ctx_dead_state none later (k + 1) hdead c q)

/-! ### 3. the corollaries with frames following -/

/-- state level, within frame `k`: a permuted cel block (distinct layers) after any prefix and
    followed by context-neutral items up to the end of the frame -/
theorem cel_order_irrelevant_tail_state (k : Nat) (x : Option UDCtx) (pi : ParseInfo)
    (pre : List Spec.SItem) (cs cs' : List (RawCel RawPixels)) (hperm : cs.Perm cs')
    (hdistinct : cs.Pairwise (fun a b => a.data.layerIndex.toNat ≠ b.data.layerIndex.toNat))
    (mid : List Spec.SItem) (hmid : ∀ y ∈ mid, ctxNeutral k y = true) :
    (Spec.runItems k pi (pre ++ (cs.map .cel ++ mid))).map (setCtx x) =
      (Spec.runItems k pi (pre ++ (cs'.map .cel ++ mid))).map (setCtx x) := by
  rw [runItems_append, runItems_append k pre]
  cases Spec.runItems k pi pre with
  | ok q =>
      simp only [Res.bind_ok]
      rw [runItems_append, runItems_append k (cs'.map .cel), map_bind, map_bind]
      refine bind_congr_modCtx (x := none) (runCels_perm k none hperm hdistinct q) ?_
      intro c q'
      rw [runItems_neutral k c mid hmid q', map_map_setCtx]
  | err e => rfl
  | panic s => rfl

/-- **the order of cel items is irrelevant, frames following**: a block of cel items on distinct
    layers followed, inside frame `k`, by context-neutral items only, and then by frames that
    overwrite the context before reading it, can be permuted without changing the result -/
theorem cel_order_irrelevant_frames_mid (h : Header) (fmt : PixelFormat) (k : Nat) (d : UInt16)
    (pi : ParseInfo) (pre : List Spec.SItem) (cs cs' : List (RawCel RawPixels))
    (hperm : cs.Perm cs')
    (hdistinct : cs.Pairwise (fun a b => a.data.layerIndex.toNat ≠ b.data.layerIndex.toNat))
    (mid : List Spec.SItem) (hmid : ∀ y ∈ mid, ctxNeutral k y = true)
    (later : List (UInt16 × List Spec.SItem)) (hdead : CtxDead (k + 1) later) :
    (Spec.runFrames k pi ((d, pre ++ (cs.map .cel ++ mid)) :: later) >>= validate h fmt) =
      (Spec.runFrames k pi ((d, pre ++ (cs'.map .cel ++ mid)) :: later) >>= validate h fmt) :=
  runFrames_congr_modCtx h fmt k d pi _ _ later hdead none
    (cel_order_irrelevant_tail_state k none _ pre cs cs' hperm hdistinct mid hmid)

/-- … the cel block at the end of frame `k` -/
theorem cel_order_irrelevant_frames (h : Header) (fmt : PixelFormat) (k : Nat) (d : UInt16)
    (pi : ParseInfo) (pre : List Spec.SItem) (cs cs' : List (RawCel RawPixels))
    (hperm : cs.Perm cs')
    (hdistinct : cs.Pairwise (fun a b => a.data.layerIndex.toNat ≠ b.data.layerIndex.toNat))
    (later : List (UInt16 × List Spec.SItem)) (hdead : CtxDead (k + 1) later) :
    (Spec.runFrames k pi ((d, pre ++ cs.map .cel) :: later) >>= validate h fmt) =
      (Spec.runFrames k pi ((d, pre ++ cs'.map .cel) :: later) >>= validate h fmt) := by
  have := cel_order_irrelevant_frames_mid h fmt k d pi pre cs cs' hperm hdistinct [] (by simp)
    later hdead
  simpa only [List.append_nil] using this

/-- state level, within frame `k`: with a palette present after the prefix, a legacy palette item
    followed by context-neutral items up to the end of the frame changes the final context only -/
theorem redundant_old_palette_tail_state (k : Nat) (x : Option UDCtx) (pi : ParseInfo)
    (pre : List Spec.SItem) (p : Palette)
    (hpal : ∀ q0, Spec.runItems k pi pre = .ok q0 → ∃ q, q0.palette = some q)
    (mid : List Spec.SItem) (hmid : ∀ y ∈ mid, ctxNeutral k y = true) :
    (Spec.runItems k pi (pre ++ .oldPalette p :: mid)).map (setCtx x) =
      (Spec.runItems k pi (pre ++ mid)).map (setCtx x) := by
  rw [runItems_append, runItems_append k pre]
  cases hpre : Spec.runItems k pi pre with
  | ok q0 =>
      obtain ⟨q, hq⟩ := hpal q0 hpre
      simp only [Res.bind_ok, Spec.runItems, stepSem_oldPalette_present k q0 p q hq]
      rw [runItems_neutral k _ mid hmid q0, map_map_setCtx]
  | err e => rfl
  | panic s => rfl

/-- **redundant legacy palette, frames following**: a legacy palette item in frame `k`, at a point
    where a palette is present, followed inside frame `k` by context-neutral items only and then
    by frames that overwrite the context before reading it, can be dropped.  (The hypothesis on
    the prefix: whenever the prefix — run after the frame's duration is stored — succeeds, the
    state it reaches has a palette.) -/
theorem redundant_old_palette_frames_mid (h : Header) (fmt : PixelFormat) (k : Nat) (d : UInt16)
    (pi : ParseInfo) (pre : List Spec.SItem) (p : Palette)
    (hpal : ∀ q0, Spec.runFrame k d pi pre = .ok q0 → ∃ q, q0.palette = some q)
    (mid : List Spec.SItem) (hmid : ∀ y ∈ mid, ctxNeutral k y = true)
    (later : List (UInt16 × List Spec.SItem)) (hdead : CtxDead (k + 1) later) :
    (Spec.runFrames k pi ((d, pre ++ .oldPalette p :: mid) :: later) >>= validate h fmt) =
      (Spec.runFrames k pi ((d, pre ++ mid) :: later) >>= validate h fmt) :=
  runFrames_congr_modCtx h fmt k d pi _ _ later hdead none
    (redundant_old_palette_tail_state k none _ pre p hpal mid hmid)

/-- … the legacy palette as the last item of frame `k` -/
theorem redundant_old_palette_frames_pre (h : Header) (fmt : PixelFormat) (k : Nat) (d : UInt16)
    (pi : ParseInfo) (pre : List Spec.SItem) (p : Palette)
    (hpal : ∀ q0, Spec.runFrame k d pi pre = .ok q0 → ∃ q, q0.palette = some q)
    (later : List (UInt16 × List Spec.SItem)) (hdead : CtxDead (k + 1) later) :
    (Spec.runFrames k pi ((d, pre ++ [.oldPalette p]) :: later) >>= validate h fmt) =
      (Spec.runFrames k pi ((d, pre) :: later) >>= validate h fmt) := by
  have := redundant_old_palette_frames_mid h fmt k d pi pre p hpal [] (by simp) later hdead
  simpa only [List.append_nil] using this

/-- … as the only item of frame `k`, a palette being present on entry (the style of
    `redundant_old_palette_at_end`) -/
theorem redundant_old_palette_frames (h : Header) (fmt : PixelFormat) (k : Nat) (d : UInt16)
    (pi : ParseInfo) (p q : Palette) (hpal : pi.palette = some q)
    (later : List (UInt16 × List Spec.SItem)) (hdead : CtxDead (k + 1) later) :
    (Spec.runFrames k pi ((d, [.oldPalette p]) :: later) >>= validate h fmt) =
      (Spec.runFrames k pi ((d, []) :: later) >>= validate h fmt) := by
  refine redundant_old_palette_frames_pre h fmt k d pi [] p ?_ later hdead
  intro q0 hq0
  simp only [Spec.runFrame, Spec.runItems, Res.ok.injEq] at hq0
  exact ⟨q, by rw [← hq0]; exact hpal⟩

/-! a palette once present stays present: discharges the prefix hypothesis above -/

theorem stepSem_palette_isSome (frame : Nat) (pi pi' : ParseInfo) (it : Spec.SItem)
    (hp : pi.palette.isSome = true) (hs : Spec.stepSem frame pi it = .ok pi') :
    pi'.palette.isSome = true := by
  cases it with
  | cel c =>
      simp only [Spec.stepSem, ParseInfo.addCel] at hs
      repeat' split at hs
      all_goals (cases hs <;> exact hp)
  | tags ts =>
      simp only [Spec.stepSem] at hs
      split at hs <;> (cases hs; exact hp)
  | palette p => cases hs; rfl
  | oldPalette p =>
      simp only [Spec.stepSem] at hs
      split at hs
      · cases hs; rfl
      · cases hs; exact hp
  | userData u =>
      simp only [Spec.stepSem, ParseInfo.addUserData] at hs
      repeat' split at hs
      all_goals (cases hs <;> exact hp)
  | _ => cases hs; exact hp

theorem runItems_palette_isSome (frame : Nat) : ∀ (items : List Spec.SItem) (pi pi' : ParseInfo)
    (_ : pi.palette.isSome = true) (_ : Spec.runItems frame pi items = .ok pi'),
    pi'.palette.isSome = true
  | [], pi, pi', hp, hs => by
      simp only [Spec.runItems, Res.ok.injEq] at hs; rw [← hs]; exact hp
  | x :: t, pi, pi', hp, hs => by
      simp only [Spec.runItems] at hs
      cases hx : Spec.stepSem frame pi x with
      | ok q =>
          rw [hx] at hs
          exact runItems_palette_isSome frame t q pi' (stepSem_palette_isSome frame pi q x hp hx) hs
      | err e => rw [hx] at hs; cases hs
      | panic s => rw [hx] at hs; cases hs

/-- **redundant legacy palette, frames following**, with the palette present on entry to frame
    `k`: any prefix, the legacy palette, context-neutral items, end of frame `k`, frames that
    overwrite the context before reading it -/
theorem redundant_old_palette_frames_entry (h : Header) (fmt : PixelFormat) (k : Nat) (d : UInt16)
    (pi : ParseInfo) (pre : List Spec.SItem) (p q : Palette) (hpal : pi.palette = some q)
    (mid : List Spec.SItem) (hmid : ∀ y ∈ mid, ctxNeutral k y = true)
    (later : List (UInt16 × List Spec.SItem)) (hdead : CtxDead (k + 1) later) :
    (Spec.runFrames k pi ((d, pre ++ .oldPalette p :: mid) :: later) >>= validate h fmt) =
      (Spec.runFrames k pi ((d, pre ++ mid) :: later) >>= validate h fmt) := by
  refine redundant_old_palette_frames_mid h fmt k d pi pre p ?_ mid hmid later hdead
  intro q0 hq0
  have := runItems_palette_isSome k pre _ q0 (by show pi.palette.isSome = true; rw [hpal]; rfl) hq0
  exact Option.isSome_iff_exists.mp this

/-! ### 4. non-vacuity -/

def exCel : RawCel RawPixels :=
  { data := ⟨0, 0, 0, 255⟩, content := .linked 0, userData := none }

def exUD : UserData := { text := some [104, 105], color := none }

/-- frame 1: palette, no-op, tags (neutral outside frame 0), then a cel, then user data (which
    attaches to that cel); frame 2: only neutral items; frame 3: a layer and its user data -/
def exLater : List (UInt16 × List Spec.SItem) :=
  [(100, [.palette Palette.empty, .noop, .tags [], .cel exCel, .userData exUD]),
   (50, [.noop, .extFiles []]),
   (70, [.layer default, .userData exUD])]

example : CtxDead 1 exLater := by decide

/-- through a frame of neutral items only into the next one -/
example : CtxDead 1 [(100, [.palette Palette.empty, .noop]), (50, [.tags [], .cel exCel, .userData exUD])] := by
  decide

/-- user data first: the context of the previous frame is read -/
example : ¬ CtxDead 1 [(100, [.userData exUD, .cel exCel])] := by decide

/-- … also behind neutral items and a frame boundary -/
example : ¬ CtxDead 1 [(100, [.noop, .tags []]), (50, [.palette Palette.empty, .userData exUD])] := by
  decide

/-- tags are context-setting in frame 0 and neutral elsewhere -/
example : CtxDead 0 [(100, [.tags [], .userData exUD])] := by decide
example : ¬ CtxDead 1 [(100, [.tags [], .userData exUD])] := by decide

/-- the hypothesis cannot be dropped: with user data at the start of the next frame a legacy
    palette in front of the frame boundary is observable.  From a state with a palette and the
    context of a layer, the two runs end in different states (the sprite's user data vs the
    layer's user data). -/
def exPi : ParseInfo :=
  { ParseInfo.new 2 0 with palette := some Palette.empty, layers := #[default],
                           ctx := some (.layer 0) }

example :
    (Spec.runFrames 0 exPi [(1, [.oldPalette Palette.empty]), (1, [.userData exUD])]).map
        (fun q => q.spriteUserData) = .ok (some exUD) ∧
    (Spec.runFrames 0 exPi [(1, []), (1, [.userData exUD])]).map
        (fun q => q.spriteUserData) = .ok none := by
  constructor <;> rfl

end Ase.Proofs.C07
