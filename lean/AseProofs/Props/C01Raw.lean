import AseProofs.Props.C01More
/-
  C01, the last step of the `loaded_*` corollaries: the same statements with right-hand sides
  that mention only the raw chunk fields of the program `p` (its frames' chunk lists and the
  fields of the chunk items), not `Spec.framesSem` / `Spec.semItem`.
-/
namespace Ase.Proofs.C01
open Ase Ase.Proofs Ase.Proofs.WholeFile Ase.Proofs.More

/-! ### raw views of a program -/

/-- all chunk items of all frames, in file order -/
def programItems (p : Spec.Program) : List Spec.Item :=
  (p.frames.flatMap (·.chunks)).map (·.item)

/-- the chunk items of frame `f` (none beyond the last frame) -/
def frameItems (p : Spec.Program) (f : Nat) : List Spec.Item :=
  (((p.frames[f]?).map (·.chunks)).getD []).map (·.item)

/-- the pixel format the header declares (depth 8 / 16 / otherwise, transparent index) -/
def programFormat (p : Spec.Program) : PixelFormat := Spec.formatOf p.header.depth p.header.tci

theorem allItems_raw (m : Profile) (p : Spec.Program) :
    allItems (Spec.framesSem m p) = (programItems p).map (Spec.semItem (programFormat p) m) := by
  rw [Spec.framesSem, allItems_framesSem, programItems, List.map_map]
  rfl

theorem itemsAt_raw (m : Profile) (p : Spec.Program) (f : Nat) :
    itemsAt (Spec.framesSem m p) f = (frameItems p f).map (Spec.semItem (programFormat p) m) := by
  unfold itemsAt frameItems Spec.framesSem
  rw [List.getElem?_map]
  cases p.frames[f]? with
  | none => rfl
  | some fr => simp [Spec.frameSem, programFormat]

/-! ### palette -/

/-- first colour index and entries of a new-format palette chunk -/
def newPalRaw? : Spec.Item → Option (UInt32 × List Spec.PalEntrySpec)
  | .palette _ first _ es => some (first, es)
  | _ => none

/-- kind (`scaled` = 0x0011, 6-bit components) and packets of a legacy palette chunk -/
def oldPalRaw? : Spec.Item → Option (Bool × List (UInt8 × List (UInt8 × UInt8 × UInt8)))
  | .oldPalette scaled ps => some (scaled, ps)
  | _ => none

theorem semItem_palItem (fmt : PixelFormat) (m : Profile) (it : Spec.Item) :
    palItem? (Spec.semItem fmt m it) =
      (newPalRaw? it).map (fun r => Spec.palOfEntries r.1.toNat Palette.empty r.2) := by
  cases it <;> rfl

theorem semItem_oldPalItem (fmt : PixelFormat) (m : Profile) (it : Spec.Item) :
    oldPalItem? (Spec.semItem fmt m it) =
      (oldPalRaw? it).map (fun r => Spec.oldPackets r.1 0 Palette.empty r.2) := by
  cases it <;> rfl

theorem filterMap_map_opt {α β γ} (g : α → Option β) (k : β → γ) (l : List α) :
    l.filterMap (fun a => (g a).map k) = (l.filterMap g).map k := by
  induction l with
  | nil => rfl
  | cons a t ih =>
      simp only [List.filterMap_cons]
      cases g a <;> simp [ih]

/-- **the palette, over raw chunk fields**: the entries `first, first+1, …` of the LAST
    new-format palette chunk if there is one, otherwise the packets of the FIRST legacy palette
    chunk, otherwise none (`palOfEntries_color` / `oldEntries_color` below say what the two
    builders contain, colour index by colour index) -/
theorem loaded_palette_raw (inflate : Inflate) (m : Profile) (p : Spec.Program)
    (hwf : ProgramWF inflate p) (s : Sprite) (hs : parse inflate m (Spec.encode p) = .ok s) :
    s.palette =
      match ((programItems p).filterMap newPalRaw?).getLast? with
      | some (first, es) => some (Spec.palOfEntries first.toNat Palette.empty es)
      | none =>
          (((programItems p).filterMap oldPalRaw?).head?).map
            (fun r => Spec.oldPackets r.1 0 Palette.empty r.2) := by
  rw [loaded_palette inflate m p hwf s hs, allItems_raw, List.filterMap_map, List.filterMap_map]
  have e1 : (palItem? ∘ Spec.semItem (programFormat p) m) =
      fun it => (newPalRaw? it).map (fun r => Spec.palOfEntries r.1.toNat Palette.empty r.2) :=
    funext (semItem_palItem _ m)
  have e2 : (oldPalItem? ∘ Spec.semItem (programFormat p) m) =
      fun it => (oldPalRaw? it).map (fun r => Spec.oldPackets r.1 0 Palette.empty r.2) :=
    funext (semItem_oldPalItem _ m)
  rw [e1, e2, filterMap_map_opt, filterMap_map_opt, List.getLast?_map, List.head?_map]
  cases ((programItems p).filterMap newPalRaw?).getLast? with
  | none => rfl
  | some r => rfl

/-- what the new-format builder contains: colour `i` is entry `i - first` of the chunk (rgba as
    stored; the name iff bit 0 of the entry flags), on top of what was there before -/
theorem palOfEntries_color (es : List Spec.PalEntrySpec) : ∀ (first : Nat) (q : Palette) (i : Nat),
    (Spec.palOfEntries first q es).color i =
      if first ≤ i ∧ i < first + es.length then
        (es[i - first]?).map (fun e =>
          { id := i, rgba := e.rgba,
            name := if e.flags.toNat % 2 = 1 then some e.name else none })
      else q.color i := by
  induction es with
  | nil => intro first q i; simp [Spec.palOfEntries]; omega
  | cons e t ih =>
      intro first q i
      rw [Spec.palOfEntries, ih, palette_color_insert]
      simp only [Spec.palEntryOfSpec, List.length_cons]
      by_cases h1 : first + 1 ≤ i ∧ i < first + 1 + t.length
      · have h2 : first ≤ i ∧ i < first + (t.length + 1) := by omega
        rw [if_pos h1, if_pos h2]
        have : i - first = (i - (first + 1)) + 1 := by omega
        rw [this, List.getElem?_cons_succ]
      · rw [if_neg h1]
        by_cases h3 : first = i
        · subst h3
          simp
        · have h2 : ¬ (first ≤ i ∧ i < first + (t.length + 1)) := by omega
          simp [h3, h2]

/-- what one legacy packet contains: colour `i` is component triple `i - first` (6-bit components
    scaled to 8 bits when `scaled`), opaque and unnamed, on top of what was there before -/
theorem oldEntries_color (scaled : Bool) (cs : List (UInt8 × UInt8 × UInt8)) :
    ∀ (first : Nat) (q : Palette) (i : Nat),
    (Spec.oldEntries scaled first q cs).color i =
      if first ≤ i ∧ i < first + cs.length then
        (cs[i - first]?).map (fun c =>
          { id := i, rgba := ⟨Spec.oldColor scaled c.1, Spec.oldColor scaled c.2.1,
                              Spec.oldColor scaled c.2.2, 255⟩, name := none })
      else q.color i := by
  induction cs with
  | nil => intro first q i; simp [Spec.oldEntries]; omega
  | cons c t ih =>
      intro first q i
      obtain ⟨r, g, b⟩ := c
      rw [Spec.oldEntries, ih, palette_color_insert]
      simp only [List.length_cons]
      by_cases h1 : first + 1 ≤ i ∧ i < first + 1 + t.length
      · have h2 : first ≤ i ∧ i < first + (t.length + 1) := by omega
        rw [if_pos h1, if_pos h2]
        have : i - first = (i - (first + 1)) + 1 := by omega
        rw [this, List.getElem?_cons_succ]
      · rw [if_neg h1]
        by_cases h3 : first = i
        · subst h3
          simp
        · have h2 : ¬ (first ≤ i ∧ i < first + (t.length + 1)) := by omega
          simp [h3, h2]

/-- a legacy chunk with a single packet: colours `skip, skip+1, …` -/
theorem oldPackets_single_color (scaled : Bool) (sk : UInt8) (cs : List (UInt8 × UInt8 × UInt8))
    (i : Nat) :
    (Spec.oldPackets scaled 0 Palette.empty [(sk, cs)]).color i =
      if sk.toNat ≤ i ∧ i < sk.toNat + cs.length then
        (cs[i - sk.toNat]?).map (fun c =>
          { id := i, rgba := ⟨Spec.oldColor scaled c.1, Spec.oldColor scaled c.2.1,
                              Spec.oldColor scaled c.2.2, 255⟩, name := none })
      else none := by
  simp only [Spec.oldPackets, Nat.zero_add]
  rw [oldEntries_color]
  rfl

example (inflate : Inflate) (m : Profile) (s : Sprite)
    (hs : parse inflate m (Spec.encode tinyProgram) = .ok s) : s.palette = none := by
  rw [loaded_palette_raw inflate m tinyProgram (tinyProgram_wf inflate) s hs]
  rfl

/-! ### external files -/

/-- the `(id, 8 reserved bytes, name)` entries of an external-files chunk -/
def extRawOf : Spec.Item → List (UInt32 × Bytes × Bytes)
  | .extFiles _ fs => fs
  | _ => []

theorem extEntries_raw (fmt : PixelFormat) (m : Profile) (its : List Spec.Item) :
    extEntries (its.map (Spec.semItem fmt m)) = (its.flatMap extRawOf).map Spec.extFileOfSpec := by
  unfold extEntries
  induction its with
  | nil => rfl
  | cons it t ih =>
      rw [List.map_cons, List.flatMap_cons, List.flatMap_cons, List.map_append, ih]
      congr 1
      cases it <;> rfl

/-- **external files, over raw chunk fields**: looking up `id` finds the LAST entry whose id
    field is `id` among the entries of all external-files chunks of all frames in file order,
    and reports that entry's id and name -/
theorem loaded_extFiles_raw (inflate : Inflate) (m : Profile) (p : Spec.Program)
    (hwf : ProgramWF inflate p) (s : Sprite) (hs : parse inflate m (Spec.encode p) = .ok s)
    (id : Nat) :
    assocGet? id s.extFiles =
      ((((programItems p).flatMap extRawOf).filter (fun e => e.1.toNat == id)).getLast?).map
        (fun e => ({ id := e.1, name := e.2.2 } : ExternalFile)) := by
  rw [loaded_extFiles inflate m p hwf s hs, allItems_raw, extEntries_raw, List.filter_map,
    List.getLast?_map]
  rfl

example (inflate : Inflate) (m : Profile) (s : Sprite)
    (hs : parse inflate m (Spec.encode tinyProgram) = .ok s) (id : Nat) :
    assocGet? id s.extFiles = none := by
  rw [loaded_extFiles_raw inflate m tinyProgram (tinyProgram_wf inflate) s hs]
  rfl

/-! ### cels -/

def celSpec? : Spec.Item → Option Spec.CelSpec
  | .cel c => some c
  | _ => none

/-- the (first) cel chunk of frame `f` whose layer-index field is `l` -/
def rawCelAt (p : Spec.Program) (f l : Nat) : Option Spec.CelSpec :=
  ((frameItems p f).filterMap celSpec?).find? (fun c => c.layer.toNat == l)

theorem semItem_celItem (fmt : PixelFormat) (m : Profile) (it : Spec.Item) :
    celItem? (Spec.semItem fmt m it) = (celSpec? it).map (Spec.celOfSpec fmt) := by
  cases it <;> rfl

theorem celItems_raw (fmt : PixelFormat) (m : Profile) (its : List Spec.Item) :
    celItems (its.map (Spec.semItem fmt m)) = (its.filterMap celSpec?).map (Spec.celOfSpec fmt) := by
  unfold celItems
  rw [List.filterMap_map]
  have e : (celItem? ∘ Spec.semItem fmt m) = fun it => (celSpec? it).map (Spec.celOfSpec fmt) :=
    funext (semItem_celItem fmt m)
  rw [e, filterMap_map_opt]

theorem findCel_raw (m : Profile) (p : Spec.Program) (f l : Nat) :
    findCel (itemsAt (Spec.framesSem m p) f) l =
      (rawCelAt p f l).map (Spec.celOfSpec (programFormat p)) := by
  unfold findCel rawCelAt
  rw [itemsAt_raw, celItems_raw, List.find?_map]
  rfl

/-- **cels, over raw chunk fields**: the sprite has a cel under `(f, l)` exactly when frame `f`
    has a cel chunk with layer index `l`; it has that chunk's layer index, position and opacity;
    an image cel has the chunk's size and its pixel bytes, grouped according to the header's
    pixel format (`rawPixelsOf`) and validated against the sprite's palette with the background
    flag of layer `l`; a linked cel has the chunk's frame number; a tilemap cel has the chunk's
    size and bit masks and its tile words masked by the tile-id mask.  (By `sprite_cels_unique`
    a frame of a file that loads has at most one cel chunk per layer.) -/
theorem loaded_cels_raw (inflate : Inflate) (m : Profile) (p : Spec.Program)
    (hwf : ProgramWF inflate p) (s : Sprite) (hs : parse inflate m (Spec.encode p) = .ok s)
    (f l : Nat) :
    match rawCelAt p f l with
    | none => (s.cels[f]?).bind (FrameCels.get? l) = none
    | some c => ∃ c', (s.cels[f]?).bind (FrameCels.get? l) = some c' ∧
        c'.data = ⟨c.layer, c.x, c.y, c.opacity⟩ ∧
        match c.body with
        | .image w h px _ => ∃ ld px', s.layers[l]? = some ld ∧
            validatePixels s.palette (programFormat p) ld.isBackground
              (Spec.rawPixelsOf (programFormat p) px) = .ok px' ∧
            c'.content = .raw w h px'
        | .linked fr => c'.content = .linked fr
        | .tilemap w h mask tiles _ =>
            c'.content = .tilemap { width := w, height := h,
                                    tiles := (tiles.map (· &&& mask.tileId)).toArray,
                                    mask := mask } := by
  have hfmt : s.format = programFormat p := (loaded_header inflate m p hwf s hs).2.2.2.1
  have h := loaded_cels inflate m p hwf s hs f l
  rw [findCel_raw] at h
  cases hc : rawCelAt p f l with
  | none => rw [hc] at h; exact h
  | some c =>
      rw [hc] at h
      obtain ⟨c', h1, h2, h3, h4⟩ := h
      refine ⟨c', h1, h2, ?_⟩
      obtain ⟨layer, x, y, op, res, body⟩ := c
      obtain ⟨d', ct', u'⟩ := c'
      cases body with
      | image w hh px z =>
          obtain ⟨ld, px', g1, g2, g3⟩ := h4 (Spec.rawPixelsOf (programFormat p) px) rfl
          refine ⟨ld, px', g1, by rw [hfmt] at g2; exact g2, ?_⟩
          cases ct' with
          | raw w' h' q =>
              cases h3
              cases g3
              rfl
          | linked _ => cases h3
          | tilemap _ => cases h3
      | linked fr =>
          cases ct' with
          | raw _ _ _ => cases h3
          | linked _ => cases h3; rfl
          | tilemap _ => cases h3
      | tilemap w hh mask tiles z =>
          cases ct' with
          | raw _ _ _ => cases h3
          | linked _ => cases h3
          | tilemap t => cases h3; rfl

example (inflate : Inflate) (m : Profile) (s : Sprite)
    (hs : parse inflate m (Spec.encode tinyProgram) = .ok s) :
    ∃ c' ld px', (s.cels[0]?).bind (FrameCels.get? 0) = some c' ∧ c'.data = ⟨0, 0, 0, 255⟩ ∧
      s.layers[0]? = some ld ∧
      validatePixels s.palette (.rgba) ld.isBackground (.rgba #[⟨10, 20, 30, 255⟩]) = .ok px' ∧
      c'.content = .raw 1 1 px' := by
  have h := loaded_cels_raw inflate m tinyProgram (tinyProgram_wf inflate) s hs 0 0
  have hf : rawCelAt tinyProgram 0 0 =
      some ⟨0, 0, 0, 255, zeros 7, .image 1 1 [10, 20, 30, 255] none⟩ := rfl
  rw [hf] at h
  obtain ⟨c', h1, h2, ld, px', h3, h4, h5⟩ := h
  exact ⟨c', ld, px', h1, h2, h3, h4, h5⟩

/-! ### tilesets -/

def tilesetSpec? : Spec.Item → Option Spec.TilesetSpec
  | .tileset t => some t
  | _ => none

/-- the LAST tileset chunk of the file whose id field is `id` -/
def rawLastTileset (p : Spec.Program) (id : Nat) : Option Spec.TilesetSpec :=
  (((programItems p).filterMap tilesetSpec?).filter (fun t => t.id.toNat == id)).getLast?

theorem semItem_tilesetItem (fmt : PixelFormat) (m : Profile) (it : Spec.Item) :
    tilesetItem? (Spec.semItem fmt m it) = (tilesetSpec? it).map (Spec.tilesetOfSpec fmt) := by
  cases it <;> rfl

theorem lastTileset_raw (m : Profile) (p : Spec.Program) (id : Nat) :
    lastTileset (Spec.framesSem m p) id =
      (rawLastTileset p id).map (Spec.tilesetOfSpec (programFormat p)) := by
  unfold lastTileset rawLastTileset tilesetItems
  rw [allItems_raw, List.filterMap_map]
  have e : (tilesetItem? ∘ Spec.semItem (programFormat p) m) =
      fun it => (tilesetSpec? it).map (Spec.tilesetOfSpec (programFormat p)) :=
    funext (semItem_tilesetItem _ m)
  rw [e, filterMap_map_opt, List.filter_map, List.getLast?_map]
  rfl

/-- **tilesets, over raw chunk fields**: looking up `id` finds nothing if no tileset chunk has
    that id, and otherwise a tileset with the id, tile count, tile size, base index and name of
    the LAST such chunk, "empty tile is 0" = bit 2 of its flags, the external reference iff
    bit 0; bit 1 (embedded tiles) is set, and the pixels are the chunk's pixel bytes grouped
    according to the header's pixel format and validated against the sprite's palette -/
theorem loaded_tilesets_raw (inflate : Inflate) (m : Profile) (p : Spec.Program)
    (hwf : ProgramWF inflate p) (s : Sprite) (hs : parse inflate m (Spec.encode p) = .ok s)
    (id : Nat) :
    match rawLastTileset p id with
    | none => assocGet? id s.tilesets = none
    | some t => ∃ t', assocGet? id s.tilesets = some t' ∧
        t'.id = t.id ∧ t'.emptyTileIsZero = ((t.flags.toNat / 4) % 2 == 1) ∧
        t'.tileCount = t.count ∧ t'.tileW = t.tw ∧ t'.tileH = t.th ∧ t'.baseIndex = t.base ∧
        t'.name = t.name ∧
        t'.extFile = (if t.flags.toNat % 2 = 1 then some (t.extFile, t.extTileset) else none) ∧
        t.flags.toNat / 2 % 2 = 1 ∧
        ∃ px, validatePixels s.palette (programFormat p) false
                (Spec.rawPixelsOf (programFormat p) t.pixels) = .ok px ∧
              t'.pixels = some px := by
  have hfmt : s.format = programFormat p := (loaded_header inflate m p hwf s hs).2.2.2.1
  have h := loaded_tilesets inflate m p hwf s hs id
  rw [lastTileset_raw] at h
  cases hc : rawLastTileset p id with
  | none => rw [hc] at h; exact h
  | some t =>
      rw [hc] at h
      obtain ⟨t', h1, hh, raw, px, g1, g2, g3⟩ := h
      simp only [tilesetHead, Spec.tilesetOfSpec, Tileset.mk.injEq] at hh
      obtain ⟨e1, e2, e3, e4, e5, e6, e7, e8, _⟩ := hh
      refine ⟨t', h1, e1, e2, e3, e4, e5, e6, e7, e8, ?_⟩
      simp only [Spec.tilesetOfSpec] at g1
      by_cases hb : t.flags.toNat / 2 % 2 = 1
      · rw [if_pos hb] at g1
        cases g1
        exact ⟨hb, px, by rw [hfmt] at g2; exact g2, g3⟩
      · rw [if_neg hb] at g1
        cases g1

/-! ### layers, slices, tags -/

/-- **layers, over raw chunk fields**: up to attached user data, one layer per layer chunk in
    file order with the low 7 bits of its flags, its name, blend mode, opacity, child level and
    its type (0 image, 1 group, otherwise tilemap with the tileset-index field) -/
theorem loaded_layers_raw (inflate : Inflate) (m : Profile) (p : Spec.Program)
    (hwf : ProgramWF inflate p) (s : Sprite) (hs : parse inflate m (Spec.encode p) = .ok s) :
    s.layers.toList.map stripL =
      (programItems p).filterMap (fun it => match it with
        | .layer l => some
            { flags := l.flags.toNat % 128, name := l.name, blendMode := l.blend.toNat,
              opacity := l.opacity,
              layerType := (if l.ltype.toNat = 0 then .image else if l.ltype.toNat = 1 then .group
                            else .tilemap l.tileset),
              childLevel := l.level, userData := none }
        | _ => none) := by
  rw [loaded_layers inflate m p hwf s hs, programLayers, programItems, List.filterMap_map]
  rfl

/-- **slices, over raw chunk fields**: up to attached user data, one slice per slice chunk in
    file order with its name and keys; a key reports the 9-slice centre iff bit 0 of the chunk
    flags is set and the pivot iff bit 1 is set -/
theorem loaded_slices_raw (inflate : Inflate) (m : Profile) (p : Spec.Program)
    (hwf : ProgramWF inflate p) (s : Sprite) (hs : parse inflate m (Spec.encode p) = .ok s) :
    s.slices.toList.map stripS =
      (programItems p).filterMap (fun it => match it with
        | .slice sl => some
            { name := sl.name,
              keys := sl.keys.map (fun k =>
                { fromFrame := k.1, ox := k.2.1, oy := k.2.2.1, w := k.2.2.2.1, h := k.2.2.2.2.1,
                  slice9 := if sl.flags.toNat % 2 = 1 then some k.2.2.2.2.2.1 else none,
                  pivot := if sl.flags.toNat / 2 % 2 = 1 then some k.2.2.2.2.2.2 else none }),
              userData := none }
        | _ => none) := by
  rw [loaded_slices inflate m p hwf s hs, programSlices, programItems, List.filterMap_map]
  rfl

def tagsSpec? : Spec.Item → Option (List Spec.TagSpec)
  | .tags _ ts => some ts
  | _ => none

theorem lastTagsSpec_raw (cs : List Spec.ChunkSpec) :
    lastTagsSpec cs = ((cs.map (·.item)).filterMap tagsSpec?).getLast? := by
  have gen : ∀ (a : Option (List Spec.TagSpec)),
      cs.foldl (fun acc c => match c.item with
        | .tags _ ts => some ts
        | _ => acc) a = (((cs.map (·.item)).filterMap tagsSpec?).getLast?).or a := by
    induction cs with
    | nil => intro a; rfl
    | cons c t ih =>
        intro a
        obtain ⟨item, pad⟩ := c
        rw [List.foldl_cons, ih, List.map_cons, List.filterMap_cons]
        cases item <;> simp [tagsSpec?, List.getLast?_cons]
  exact (gen none).trans Option.or_none

/-- **tags, over raw chunk fields**: up to attached user data, the tags of the LAST tags chunk
    of the FIRST frame (tags chunks of later frames are ignored), each with its name, frame
    range, repeat count and direction byte -/
theorem loaded_tags_raw (inflate : Inflate) (m : Profile) (p : Spec.Program)
    (hwf : ProgramWF inflate p) (s : Sprite) (hs : parse inflate m (Spec.encode p) = .ok s) :
    s.tags.toList.map stripT =
      ((((frameItems p 0).filterMap tagsSpec?).getLast?).getD []).map (fun t =>
        { name := t.name, fromFrame := t.fromFrame, toFrame := t.toFrame,
          repeatCount := t.repeatCount, direction := t.direction.toNat, userData := none }) := by
  rw [loaded_tags inflate m p hwf s hs, programTags]
  obtain ⟨hdr, frames, trailer⟩ := p
  cases frames with
  | nil => rfl
  | cons f t =>
      show ((lastTagsSpec f.chunks).getD []).map Spec.tagOfSpec = _
      rw [lastTagsSpec_raw]
      rfl

/-! ### non-vacuity on a richer program: every `some` branch above is exercised -/

/-- the zlib stream (one stored block + Adler-32) of the bytes `1 2 3 4` -/
def demoZ : Bytes := [0x78, 0x01, 0x01, 0x04, 0x00, 0xFB, 0xFF, 1, 2, 3, 4, 0, 0x18, 0, 0x0B]

/-- one RGBA 1×1 frame with a layer, a new-format palette (colours 1, 2), a legacy palette, an
    external-files chunk (id 5 twice), a tileset with one embedded tile, a tags chunk, a slice
    and a raw cel -/
def demoProgram : Spec.Program :=
  { tinyProgram with
    frames := [{ duration := 100, oldCountOnly := false, oldField := 0, ph := 0, slack := 0,
                 chunks := [
                   ⟨.layer ⟨3, 0, 0, 0, 0, 0, 255, 0, 0, [76, 49], 0⟩, []⟩,
                   ⟨.palette 2 1 (zeros 8) [⟨0, ⟨1, 2, 3, 255⟩, []⟩, ⟨1, ⟨4, 5, 6, 255⟩, [65]⟩], []⟩,
                   ⟨.oldPalette false [(0, [(9, 9, 9)])], []⟩,
                   ⟨.extFiles (zeros 8) [(5, zeros 8, [65]), (6, zeros 8, [66]), (5, zeros 8, [67])], []⟩,
                   ⟨.tileset ⟨7, 2, 1, 1, 1, 1, zeros 14, [84], 0, 0, 0, [1, 2, 3, 4], demoZ⟩, []⟩,
                   ⟨.tags (zeros 8) [⟨0, 0, 1, 0, zeros 6, 0, [71]⟩], []⟩,
                   ⟨.slice ⟨1, 0, [83], [(0, 1, 2, 3, 4, ⟨5, 6, 7, 8⟩, (9, 9))]⟩, []⟩,
                   ⟨.cel ⟨0, 0, 0, 255, zeros 7, .image 1 1 [10, 20, 30, 255] none⟩, [7]⟩] }] }

theorem demoProgram_wf (inflate : Inflate) (hz : inflate demoZ = .ok [1, 2, 3, 4]) :
    ProgramWF inflate demoProgram := by
  refine ⟨by decide, by decide, by decide, by decide, ?_⟩
  intro f hf
  simp only [demoProgram, List.mem_singleton] at hf
  subst hf
  refine ⟨by decide, by decide +kernel, ?_⟩
  intro c hc
  simp only [List.mem_cons, List.not_mem_nil, or_false] at hc
  rcases hc with rfl | rfl | rfl | rfl | rfl | rfl | rfl | rfl
  · exact ⟨by decide, by decide, by decide, by decide, by decide⟩
  · refine ⟨by decide, by decide, by decide, by decide, ?_⟩
    intro e he
    simp only [List.mem_cons, List.not_mem_nil, or_false] at he
    rcases he with rfl | rfl
    · intro h; exact absurd h (by decide)
    · intro _; exact ⟨by decide, by decide⟩
  · refine ⟨by decide, by decide, ?_⟩
    intro pk hpk
    simp only [List.mem_singleton] at hpk
    subst hpk
    refine ⟨by decide, by decide, ?_⟩
    intro c _ h
    cases h
  · refine ⟨by decide, by decide, by decide, ?_⟩
    intro e he
    simp only [List.mem_cons, List.not_mem_nil, or_false] at he
    rcases he with rfl | rfl | rfl <;> exact ⟨by decide, by decide, by decide⟩
  · refine ⟨by decide, by decide, by decide, by decide, by decide, by decide, ?_⟩
    intro _
    exact ⟨by decide, by simpa using hz, by decide⟩
  · refine ⟨by decide, by decide, by decide, ?_⟩
    intro t ht
    simp only [List.mem_singleton] at ht
    subst ht
    exact ⟨by decide, by decide, by decide, by decide⟩
  · exact ⟨by decide, by decide, by decide, by decide⟩
  · exact ⟨by decide, by decide, rfl⟩

/-- the demo program loads (so the examples below are not about an impossible hypothesis) -/
theorem demoProgram_loads (inflate : Inflate) (m : Profile)
    (hz : inflate demoZ = .ok [1, 2, 3, 4]) :
    (parse inflate m (Spec.encode demoProgram)).isOk = true := by
  rw [decode_encode inflate m demoProgram (demoProgram_wf inflate hz)]
  obtain ⟨a, b⟩ := m
  cases a <;> cases b <;> decide +kernel

section examples
variable (inflate : Inflate) (m : Profile) (s : Sprite)

/-- palette: the new-format chunk wins over the legacy one; colours 1 and 2 are its entries
    (the name only where flag bit 0 is set), colour 0 of the legacy chunk is not there -/
example (hz : inflate demoZ = .ok [1, 2, 3, 4])
    (hs : parse inflate m (Spec.encode demoProgram) = .ok s) :
    ∃ pal, s.palette = some pal ∧ pal.color 1 = some ⟨1, ⟨1, 2, 3, 255⟩, none⟩ ∧
      pal.color 2 = some ⟨2, ⟨4, 5, 6, 255⟩, some [65]⟩ ∧ pal.color 0 = none := by
  have h := loaded_palette_raw inflate m demoProgram (demoProgram_wf inflate hz) s hs
  have e : ((programItems demoProgram).filterMap newPalRaw?).getLast? =
      some (1, [⟨0, ⟨1, 2, 3, 255⟩, []⟩, ⟨1, ⟨4, 5, 6, 255⟩, [65]⟩]) := rfl
  rw [e] at h
  refine ⟨_, h, ?_, ?_, ?_⟩ <;> rw [palOfEntries_color] <;> rfl

/-- external files: of the two entries with id 5 the last one is found -/
example (hz : inflate demoZ = .ok [1, 2, 3, 4])
    (hs : parse inflate m (Spec.encode demoProgram) = .ok s) :
    assocGet? 5 s.extFiles = some ⟨5, [67]⟩ ∧ assocGet? 6 s.extFiles = some ⟨6, [66]⟩ ∧
      assocGet? 7 s.extFiles = none := by
  have h := loaded_extFiles_raw inflate m demoProgram (demoProgram_wf inflate hz) s hs
  exact ⟨(h 5).trans rfl, (h 6).trans rfl, (h 7).trans rfl⟩

/-- tilesets: id 7 is there with the chunk's fields and its validated pixel; id 0 is not -/
example (hz : inflate demoZ = .ok [1, 2, 3, 4])
    (hs : parse inflate m (Spec.encode demoProgram) = .ok s) :
    (∃ t' px, assocGet? 7 s.tilesets = some t' ∧ t'.id = 7 ∧ t'.tileCount = 1 ∧ t'.tileW = 1 ∧
      t'.tileH = 1 ∧ t'.baseIndex = 1 ∧ t'.name = [84] ∧ t'.extFile = none ∧
      validatePixels s.palette .rgba false (.rgba #[⟨1, 2, 3, 4⟩]) = .ok px ∧
      t'.pixels = some px) ∧
    assocGet? 0 s.tilesets = none := by
  have h := loaded_tilesets_raw inflate m demoProgram (demoProgram_wf inflate hz) s hs
  refine ⟨?_, h 0⟩
  have h7 := h 7
  have e : rawLastTileset demoProgram 7 =
      some ⟨7, 2, 1, 1, 1, 1, zeros 14, [84], 0, 0, 0, [1, 2, 3, 4], demoZ⟩ := rfl
  rw [e] at h7
  obtain ⟨t', g0, g1, _, g3, g4, g5, g6, g7, g8, _, px, g9, g10⟩ := h7
  exact ⟨t', px, g0, g1, g3, g4, g5, g6, g7, g8, g9, g10⟩

example (hs : parse inflate m (Spec.encode tinyProgram) = .ok s) (id : Nat) :
    assocGet? id s.tilesets = none :=
  loaded_tilesets_raw inflate m tinyProgram (tinyProgram_wf inflate) s hs id

/-- layers -/
example (hs : parse inflate m (Spec.encode tinyProgram) = .ok s) :
    s.layers.toList.map stripL = [⟨3, [76, 49], 0, 255, .image, 0, none⟩] := by
  rw [loaded_layers_raw inflate m tinyProgram (tinyProgram_wf inflate) s hs]
  rfl

/-- slices: flags = 1, so the 9-slice centre is reported and the pivot is not -/
example (hz : inflate demoZ = .ok [1, 2, 3, 4])
    (hs : parse inflate m (Spec.encode demoProgram) = .ok s) :
    s.slices.toList.map stripS = [⟨[83], [⟨0, 1, 2, 3, 4, some ⟨5, 6, 7, 8⟩, none⟩], none⟩] := by
  rw [loaded_slices_raw inflate m demoProgram (demoProgram_wf inflate hz) s hs]
  rfl

example (hs : parse inflate m (Spec.encode tinyProgram) = .ok s) :
    s.slices.toList.map stripS = [] := by
  rw [loaded_slices_raw inflate m tinyProgram (tinyProgram_wf inflate) s hs]
  rfl

/-- tags -/
example (hz : inflate demoZ = .ok [1, 2, 3, 4])
    (hs : parse inflate m (Spec.encode demoProgram) = .ok s) :
    s.tags.toList.map stripT = [⟨[71], 0, 0, 0, 1, none⟩] := by
  rw [loaded_tags_raw inflate m demoProgram (demoProgram_wf inflate hz) s hs]
  rfl

example (hs : parse inflate m (Spec.encode tinyProgram) = .ok s) :
    s.tags.toList.map stripT = [] := by
  rw [loaded_tags_raw inflate m tinyProgram (tinyProgram_wf inflate) s hs]
  rfl

end examples

end Ase.Proofs.C01
