import Ase.Alloc
import AseProofs.Lemmas.SrcSim
/-
  C12  Memory used while loading is bounded by the bytes actually supplied.
  Theorem about the allocation account `Ase.Alloc.reserved` (see that file for what it
  charges): for every byte string it stays below 64 MiB + 8192 bytes per input byte.
-/
namespace Ase.Proofs.C12
open Ase Ase.Alloc

theorem bytesRead_len {n : Nat} {bs b rest : Bytes} (h : bytesRead n bs = .ok (b, rest)) :
    b.length = n ∧ bs.length = n + rest.length := by
  unfold bytesRead at h
  split at h
  · cases h
    simp only [List.length_take, List.length_drop]
    omega
  · cases h

theorem readU16_len {bs rest : Bytes} {v : UInt16} (h : readU16 bytesSrc bs = .ok (v, rest)) :
    bs.length = 2 + rest.length := by
  simp only [readU16, bytesSrc] at h
  change (RdS.bind (bytesRead 2) _) bs = _ at h
  unfold RdS.bind at h
  split at h
  · rename_i b s' hb
    cases h
    exact (bytesRead_len hb).2
  · cases h
  · cases h

theorem readU32_len {bs rest : Bytes} {v : UInt32} (h : readU32 bytesSrc bs = .ok (v, rest)) :
    bs.length = 4 + rest.length := by
  simp only [readU32, bytesSrc] at h
  change (RdS.bind (bytesRead 4) _) bs = _ at h
  unfold RdS.bind at h
  split at h
  · rename_i b s' hb
    cases h
    exact (bytesRead_len hb).2
  · cases h
  · cases h

/-- a framed chunk consumed exactly its 6 header bytes and its payload -/
theorem readChunk_len {avail avail' : Int} {bs rest : Bytes} {c : Chunk}
    (h : readChunk bytesSrc avail bs = .ok ((c, avail'), rest)) :
    bs.length = 6 + c.data.length + rest.length := by
  simp only [readChunk, RdS.bind_run] at h
  split at h
  · rename_i size s1 h1
    split at h
    · rename_i code s2 h2
      split at h
      · rename_i ty s3 h3
        have l3 : s3 = s2 := by
          unfold RdS.lift at h3
          cases hp : parseChunkType code with
          | ok t => rw [hp] at h3; simp at h3; exact h3.2.symm
          | err e => rw [hp] at h3; simp at h3
          | panic p => rw [hp] at h3; simp at h3
        subst l3
        split at h
        · cases h
        · split at h
          · cases h
          · simp only [RdS.bind_run] at h
            split at h
            · rename_i data s4 h4
              simp only [RdS.pure_run, Res.ok.injEq, Prod.mk.injEq] at h
              obtain ⟨⟨hc, _⟩, hr⟩ := h
              subst hc hr
              have l1 := readU32_len h1
              have l2 := readU16_len h2
              have l4 := bytesRead_len (show bytesRead _ s3 = .ok (data, s4) from h4)
              simp only
              omega
            · cases h
            · cases h
      · cases h
      · cases h
    · cases h
    · cases h
  · cases h
  · cases h

theorem chunkCost_le (c : Chunk) : chunkCost c ≤ 8192 * (6 + c.data.length) := by
  unfold chunkCost
  split
  · omega
  · omega
  · split <;> omega
  · omega

/-- the chunks framed so far cost at most 8192 bytes per consumed byte -/
theorem readChunksPartial_cost : ∀ (n : Nat) (avail : Int) (bs : Bytes),
    ((readChunksPartial n avail bs).1.map chunkCost).sum + 8192 * (readChunksPartial n avail bs).2.length
      ≤ 8192 * bs.length := by
  intro n
  induction n with
  | zero => intro avail bs; simp [readChunksPartial]
  | succ n ih =>
      intro avail bs
      unfold readChunksPartial
      split
      · rename_i c avail' rest hc
        have hl := readChunk_len hc
        have := ih avail' rest
        have hcc := chunkCost_le c
        simp only [List.map_cons, List.sum_cons]
        omega
      · simp

theorem readFrameHeader_len {bs rest : Bytes} {h : FrameHeader}
    (hh : readFrameHeader bytesSrc bs = .ok (h, rest)) : rest.length ≤ bs.length := by
  obtain ⟨used, hbs, _, _⟩ := SrcSim.strict_readFrameHeader bs h rest hh
  rw [hbs]; simp

theorem readHeader_len {bs rest : Bytes} {h : Header}
    (hh : readHeader bytesSrc bs = .ok (h, rest)) : rest.length ≤ bs.length := by
  obtain ⟨used, hbs, _, _⟩ := SrcSim.strict_readHeader bs h rest hh
  rw [hbs]; simp

theorem framesCost_le : ∀ (n : Nat) (bs : Bytes), framesCost n bs ≤ 8192 * bs.length := by
  intro n
  induction n with
  | zero => intro bs; simp [framesCost]
  | succ n ih =>
      intro bs
      unfold framesCost
      split
      · rename_i h rest hh
        have hl := readFrameHeader_len hh
        have hc := readChunksPartial_cost h.numChunks ((h.numBytes.toNat : Int) - 16) rest
        dsimp only
        split
        · have := ih (readChunksPartial h.numChunks ((h.numBytes.toNat : Int) - 16) rest).2
          omega
        · omega
      · omega

/-- **C12**: for every byte string the allocation account stays below 64 MiB + 8192 bytes per
    input byte supplied — sizes and counts that are merely declared in the file do not enter
    it at all (the account is a function of the bytes consumed and of the frame count,
    which is at most 65535). -/
theorem alloc_bound (bs : Bytes) : reserved bs ≤ bound bs.length := by
  unfold reserved bound
  split
  · rename_i h rest hh
    have hf := framesCost_le h.numFrames.toNat rest
    have hn : h.numFrames.toNat < 65536 := h.numFrames.toNat_lt
    have hlen : rest.length ≤ bs.length := readHeader_len hh
    simp only [fixedCost, transientCost]
    omega
  · simp only [transientCost]; omega

end Ase.Proofs.C12
