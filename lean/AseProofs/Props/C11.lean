import Ase.Parse
import AseProofs.Lemmas.Assoc
/-
  C11  Palettes decode correctly and indexed files need a complete palette.
-/
namespace Ase.Proofs.C11
open Ase

/-- the complete table of the 6-bit → 8-bit scaling (all 256 byte values): 0 ↦ 0, 63 ↦ 255,
    strictly monotone on 0..63, and every value ≥ 64 is rejected -/
theorem scale6_table :
    scale6 0 = .ok 0 ∧ scale6 63 = .ok 255 ∧
    ((List.range 63).all fun c =>
      match scale6 (UInt8.ofNat c), scale6 (UInt8.ofNat (c + 1)) with
      | .ok a, .ok b => a < b
      | _, _ => false) = true ∧
    ((List.range 256).all fun c => c < 64 || scale6 (UInt8.ofNat c) == .err .invalid) = true := by
  refine ⟨by decide, by decide, by decide +kernel, by decide +kernel⟩

/-- closed form of the scaling on its domain -/
theorem scale6_formula (c : UInt8) (h : c.toNat < 64) :
    scale6 c = .ok (UInt8.ofNat (c.toNat * 4 + c.toNat / 16)) := by
  have : ¬ c.toNat ≥ 64 := by omega
  simp only [scale6, this, if_false]
  congr 2
  omega

/-- an indexed sprite with pixels but without a palette fails to load (validation of any
    indexed pixel buffer against an absent palette is an error) -/
theorem indexed_no_palette_fails (fmt : PixelFormat) (bg : Bool) (px : Array UInt8) :
    validatePixels none fmt bg (.indexed px) = .err .invalid := rfl

/-- a pixel index that is absent from the palette fails validation -/
theorem indexed_missing_index_fails (p : Palette) (fmt : PixelFormat) (bg : Bool) (px : Array UInt8)
    (i : UInt8) (hi : i ∈ px) (hmiss : p.color i.toNat = none) :
    validatePixels (some p) fmt bg (.indexed px) = .err .invalid := by
  have : validateIndexed p px = false := by
    rw [Bool.eq_false_iff]
    intro hall
    simp only [validateIndexed, Array.all_eq_true_iff_forall_mem] at hall
    have := hall i hi
    simp [hmiss] at this
  simp [validatePixels, this]

/-- conversely, validation succeeds only if every index is in the palette -/
theorem indexed_complete (pal : Option Palette) (fmt : PixelFormat) (bg : Bool) (px : Array UInt8)
    (out : Pixels) (h : validatePixels pal fmt bg (.indexed px) = .ok out) :
    ∃ p tci, pal = some p ∧ fmt = .indexed tci ∧ out = .indexed tci bg px ∧
      ∀ i ∈ px, (p.color i.toNat).isSome := by
  simp only [validatePixels] at h
  split at h
  · cases h
  · rename_i p
    split at h
    · cases h
    · rename_i hv
      split at h
      · rename_i tci
        cases h
        refine ⟨p, tci, rfl, rfl, rfl, ?_⟩
        have hv' : validateIndexed p px = true := by
          cases hh : validateIndexed p px <;> simp_all
        simp only [validateIndexed, Array.all_eq_true_iff_forall_mem] at hv'
        exact hv'
      · cases h

/-- **precedence**: a new-format palette chunk always replaces the current palette … -/
theorem new_palette_replaces (inflate : Inflate) (m : Profile) (fmt : PixelFormat) (frame : Nat)
    (pi : ParseInfo) (data : Bytes) (p : Palette) (h : runChunk parsePaletteChunk data = .ok p) :
    processChunk inflate m fmt frame pi ⟨.palette, data⟩ = .ok { pi with palette := some p } := by
  simp [processChunk, h]

/-- … and a legacy palette chunk (either kind) never replaces an existing palette, in either
    chunk order; it only sets the user-data context -/
theorem old_palette_keeps_existing (inflate : Inflate) (m : Profile) (fmt : PixelFormat) (frame : Nat)
    (pi : ParseInfo) (data : Bytes) (p : Palette) (hp : pi.palette = some p) (ty : ChunkType)
    (hty : ty = .oldPalette04 ∨ ty = .oldPalette11) :
    processChunk inflate m fmt frame pi ⟨ty, data⟩ = .ok { pi with ctx := some .oldPalette } := by
  rcases hty with rfl | rfl <;> simp [processChunk, hp]

/-- a legacy palette chunk is used when no palette has been seen yet -/
theorem old_palette_used_when_none (inflate : Inflate) (m : Profile) (fmt : PixelFormat) (frame : Nat)
    (pi : ParseInfo) (data : Bytes) (p : Palette) (hp : pi.palette = none)
    (h : runChunk (parseOldPaletteChunk m false) data = .ok p) :
    processChunk inflate m fmt frame pi ⟨.oldPalette04, data⟩ =
      .ok { pi with ctx := some .oldPalette, palette := some p } := by
  simp [processChunk, hp, h]

/-- legacy entries are opaque: every entry a legacy chunk inserts has alpha 255 and no name -/
theorem old_entries_opaque (scaled : Bool) : ∀ (n id : Nat) (p p' : Palette) (bs rest : Bytes),
    parseOldEntries scaled n id p bs = .ok (p', rest) →
    (∀ k e, p.color k = some e → e.rgba.a = 255 ∧ e.name = none) →
    (∀ k e, p'.color k = some e → e.rgba.a = 255 ∧ e.name = none) := by
  intro n
  induction n with
  | zero =>
      intro id p p' bs rest h hp
      simp only [parseOldEntries] at h
      cases h
      exact hp
  | succ n ih =>
      intro id p p' bs rest h hp
      simp only [parseOldEntries, RdS.bind_run] at h
      split at h
      · rename_i r s1 _
        split at h
        · rename_i g s2 _
          split at h
          · rename_i b s3 _
            refine ih (id + 1) _ p' s3 rest h ?_
            intro k e hk
            rw [Proofs.palette_color_insert] at hk
            split at hk
            · cases hk; exact ⟨rfl, rfl⟩
            · exact hp k e hk
          · cases h
          · cases h
        · cases h
        · cases h
      · cases h
      · cases h

end Ase.Proofs.C11
