import Ase

open Ase

def cfgOf (profile : String) : Gen.Cfg :=
  match profile with
  | "struct" => {}
  | "plain" => { padding := false, ignorable := false, permuteCels := false }
  | "render" => { maxW := 9, maxH := 7, maxLayers := 8, tags := false, slices := false,
                  extFiles := false, userData := false }
  | "large" => { maxW := 300, maxH := 9, maxFrames := 40, maxLayers := 120, maxTags := 150, maxSlices := 60,
                 maxKeys := 40 }
  | "rgba" => { depth := 32 }
  | "gray" => { depth := 16 }
  | "indexed" => { depth := 8 }
  | "forest" => { maxW := 4, maxH := 3, maxFrames := 1, maxLayers := 8, tilesets := false,
                  tags := false, slices := false, extFiles := false, userData := false,
                  oldPalette := false, blendModes := false }
  | "legacyindexed" => { depth := 8, legacyOnly := true, zlib := false, padding := false,
                         ignorable := false, tilesets := false, userData := false }
  | "indexedplain" => { depth := 8, oldPalette := false, zlib := false, padding := false,
                        ignorable := false, tilesets := false, userData := false }
  | "tiles" => { maxLayers := 3, tags := false, slices := false, extFiles := false }
  | _ => {}

def emitCase (out : IO.FS.Stream) (verbose : Bool) (m : Profile) (id : String) (bs : Bytes)
    (outcomeOnly : Bool := false) : IO Unit := do
  out.putStrLn s!"CASE {id}"
  let r := parse ZlibT.inflate m bs
  if outcomeOnly then
    out.putStrLn (match r with
      | .ok _ => "load ok"
      | .err e => s!"load err {Obs.errName e}"
      | .panic _ => "load panic")
  else
    for l in Obs.load verbose m r do
      out.putStrLn l
  out.putStrLn "END"

partial def loop (h : IO.FS.Stream) (out : IO.FS.Stream) (m : Profile) : IO Unit := do
  let line ← h.getLine
  if line.isEmpty then return ()
  let parts := line.trimAscii.toString.splitOn " "
  match parts with
  | ["PROFILE", p] =>
      let m' := if p == "checked" then Profile.checked else Profile.release
      loop h out m'
  | ["GEN", profile, seed, count] =>
      -- emit `count` generated cases: the input bytes and the model's observation
      let cfg := cfgOf profile
      let seed := seed.toNat!
      for i in [0:count.toNat!] do
        let p := Gen.run (seed * 1000003 + i) (Gen.programG cfg)
        let bs := Spec.encode p
        out.putStrLn s!"INPUT {profile}-{seed}-{i} {Obs.hex bs}"
        emitCase out false m s!"{profile}-{seed}-{i}" bs
        -- both sides of theorem C01.decode_encode on this very program: the semantic meaning
        -- (state machine over the items' meanings + validation) vs the parse of the encoded bytes
        let viaSem := Obs.load false m (Spec.semParse (Spec.headerSem p) (Spec.framesSem m p))
        let viaParse := Obs.load false m (parse ZlibT.inflate m bs)
        out.putStrLn s!"SEMCHECK {profile}-{seed}-{i} {if viaSem == viaParse then "same" else "MISMATCH"}"
      out.flush
      loop h out m
  | ["GENVAR", profile, seed, count, k] =>
      -- `count` programs, each in `k` encodings of the same meaning (C07)
      let cfg := cfgOf profile
      let seed := seed.toNat!
      for i in [0:count.toNat!] do
        let p := Gen.run (seed * 1000003 + i) (Gen.programG cfg)
        for j in [0:k.toNat!] do
          let q := if j == 0 then p else Gen.run (seed * 7919 + i * 131 + j) (Gen.reencode p)
          let bs := Spec.encode q
          out.putStrLn s!"INPUT var-{profile}-{seed}-{i}-{j} {Obs.hex bs}"
          emitCase out false m s!"var-{profile}-{seed}-{i}-{j}" bs
      out.flush
      loop h out m
  | ["GENSQUARE", mode, ba, sa, lop, cop] =>
      -- the complete (backdrop channel, source channel) square 256 x 256 for one pair of alphas:
      -- pixel (x, y) has backdrop (x, x, x, ba) and source (y, y, y, sa) rotated over the channels
      let back := (List.range 65536).map (fun i =>
        let x := UInt8.ofNat (i % 256)
        RGBA.mk x (UInt8.ofNat ((i % 256 + 85) % 256)) (UInt8.ofNat ((i % 256 + 170) % 256)) (UInt8.ofNat ba.toNat!))
      let src := (List.range 65536).map (fun i =>
        let y := UInt8.ofNat (i / 256)
        RGBA.mk y (UInt8.ofNat ((i / 256 + 85) % 256)) (UInt8.ofNat ((i / 256 + 170) % 256)) (UInt8.ofNat sa.toNat!))
      let p := Gen.blendProgram mode.toNat! lop.toNat! cop.toNat! 256 256 back src
      let bs := Spec.encode p
      let id := s!"square-{mode}-{ba}-{sa}-{lop}-{cop}"
      out.putStrLn s!"INPUT {id} {Obs.hex bs}"
      emitCase out false m id bs
      out.flush
      loop h out m
  | ["GENBLEND", mode, seed, lop, cop, w, hh, verbose] =>
      -- two-layer blend enumeration; pixel pairs depend on the seed only
      let (back, src) := Gen.run seed.toNat! (Gen.blendPixelsG (w.toNat! * hh.toNat!))
      -- verbose = "1": raw source cel with pixel dump; "t": source stored as a tilemap layer
      let p := if verbose == "t" then Gen.blendProgramTiles mode.toNat! lop.toNat! cop.toNat! w.toNat! hh.toNat! back src
               else Gen.blendProgram mode.toNat! lop.toNat! cop.toNat! w.toNat! hh.toNat! back src
      let bs := Spec.encode p
      let id := if verbose == "t" then s!"blendtiles-{mode}-{seed}-{lop}-{cop}" else s!"blend-{mode}-{seed}-{lop}-{cop}"
      out.putStrLn s!"INPUT {id} {Obs.hex bs}"
      emitCase out (verbose == "1") m id bs
      if verbose == "1" then
        out.putStrLn s!"PIXELS {id} {Obs.hex (Gen.rgbaBytes back)} {Obs.hex (Gen.rgbaBytes src)}"
      out.flush
      loop h out m
  | ["REFCHECK", mode, seed, count] =>
      -- run the Rust model and the Aseprite reference spec on the same random pixels
      let n := count.toNat!
      let (back, src) := Gen.run seed.toNat! (Gen.blendPixelsG n)
      let ops := Gen.run (seed.toNat! + 7) ((List.range n).mapM (fun _ => Gen.edgeByte))
      let mut bad := 0
      let mut firstBad := ""
      for ((b, s), o) in (back.zip src).zip ops do
        let r1 := Blend.blend floatOps Profile.release mode.toNat! b s o
        let r2 := Spec.BlendRef.blend floatOps mode.toNat! b s o
        let same := match r1 with | .ok x => x == r2 | _ => false
        if !same then
          bad := bad + 1
          if firstBad == "" then
            firstBad := s!"{Obs.rgbaHex b} {Obs.rgbaHex s} {o.toNat} ref={Obs.rgbaHex r2}"
      out.putStrLn s!"REFCHECK {mode} {seed} n={n} mismatches={bad} {firstBad}"
      out.flush
      loop h out m
  | ["REFPIX", mode, seed, count] =>
      -- print (backdrop, source, opacity, reference result) for the C++ oracle
      let n := count.toNat!
      let (back, src) := Gen.run seed.toNat! (Gen.blendPixelsG n)
      let ops := Gen.run (seed.toNat! + 7) ((List.range n).mapM (fun _ => Gen.edgeByte))
      for ((b, s), o) in (back.zip src).zip ops do
        let r2 := Spec.BlendRef.blend floatOps mode.toNat! b s o
        out.putStrLn s!"REFPIX {mode} {Obs.rgbaHex b} {Obs.rgbaHex s} {o.toNat} {Obs.rgbaHex r2}"
      out.flush
      loop h out m
  | ["UTIL", id, "extrude", w, hh, hx] =>
      out.putStrLn s!"CASE {id}"
      match Obs.unhex hx with
      | none => out.putStrLn "bad-hex"
      | some bs =>
          let img : Image := ⟨w.toNat!, hh.toNat!, (groupRgba bs).toArray⟩
          match Util.extrudeBorder img with
          | .ok o => out.putStrLn s!"extrude {Obs.image true o}"
          | _ => out.putStrLn "util PANIC"
      out.putStrLn "END"
      out.flush
      loop h out m
  | ["UTIL", id, "mapper", file, failure, transp, order, queries] =>
      -- `order`: fwd | rev — the hash map's iteration order is unspecified, the model takes it
      out.putStrLn s!"CASE {id}"
      match Obs.unhex file, Obs.unhex queries with
      | some fb, some qb =>
          match parse ZlibT.inflate m fb with
          | .ok sp =>
              match sp.palette with
              | some pal =>
                  let opts : Util.MappingOptions :=
                    ⟨UInt8.ofNat failure.toNat!, if transp == "-" then none else some (UInt8.ofNat transp.toNat!)⟩
                  let ord := if order == "rev" then pal.entries.reverse else pal.entries
                  let pm := Util.PaletteMapper.new ord opts
                  let res := (groupRgba qb).map (fun c => toString (pm.lookup c.r c.g c.b c.a).toNat)
                  out.putStrLn s!"mapper {String.intercalate "," res}"
              | none => out.putStrLn "bad-request"
          | _ => out.putStrLn "bad-request"
      | _, _ => out.putStrLn "bad-hex"
      out.putStrLn "END"
      out.flush
      loop h out m
  | ["UTIL", id, "indexed", file, failure, transp, order, w, hh, hx] =>
      out.putStrLn s!"CASE {id}"
      match Obs.unhex file, Obs.unhex hx with
      | some fb, some pb =>
          match parse ZlibT.inflate m fb with
          | .ok sp =>
              match sp.palette with
              | some pal =>
                  let opts : Util.MappingOptions :=
                    ⟨UInt8.ofNat failure.toNat!, if transp == "-" then none else some (UInt8.ofNat transp.toNat!)⟩
                  let ord := if order == "rev" then pal.entries.reverse else pal.entries
                  let pm := Util.PaletteMapper.new ord opts
                  let img : Image := ⟨w.toNat!, hh.toNat!, (groupRgba pb).toArray⟩
                  let ((rw, rh), data) := Util.toIndexedImage img pm
                  out.putStrLn s!"indexed {rw}x{rh} {Obs.hex data.toList}"
              | none => out.putStrLn "bad-request"
          | _ => out.putStrLn "bad-request"
      | _, _ => out.putStrLn "bad-hex"
      out.putStrLn "END"
      out.flush
      loop h out m
  | ["SCHED", id, hx, events] =>
      -- load through a scheduled reader (C14); `bufreader:<n>` / `file` / `fifo:<n>` are plain readers
      out.putStrLn s!"CASE {id}"
      match Obs.unhex hx with
      | none => out.putStrLn "bad-hex"
      | some bs =>
          let evs : Option (List Ev) :=
            if events == "-" || events.startsWith "bufreader:" || events == "file" || events.startsWith "fifo:" then some []
            else (events.splitOn ",").mapM (fun tok =>
              if tok == "i" then some Ev.interrupted
              else if tok.startsWith "d" then (tok.drop 1).toString.toNat?.map Ev.deliver
              else if tok.startsWith "f" || tok.startsWith "F" then (tok.drop 1).toString.toNat?.map (fun c =>
                Ev.fail (if c == 0 then .unexpectedEof else .other c))
              else none)
          match evs with
          | none => out.putStrLn "bad-events"
          | some evs =>
              let r := parseStream ZlibT.inflate m ⟨bs, evs⟩
              for l in Obs.load false m r do
                out.putStrLn l
      out.putStrLn "END"
      out.flush
      loop h out m
  | ["ALLOC", id, hx] =>
      out.putStrLn s!"CASE {id}"
      match Obs.unhex hx with
      | none => out.putStrLn "bad-hex"
      | some bs => out.putStrLn s!"alloc len={bs.length} reserved={Alloc.reserved bs} bound={Alloc.bound bs.length}"
      out.putStrLn "END"
      out.flush
      loop h out m
  | ["INFLATE", id, hx] =>
      -- the driver's instance of the `inflate` parameter alone (compared with flate2)
      out.putStrLn s!"CASE {id}"
      match Obs.unhex hx with
      | none => out.putStrLn "bad-hex"
      | some bs =>
          match ZlibT.inflate bs with
          | .ok o => out.putStrLn s!"ok {Obs.hex o}"
          | .err (.io .unexpectedEof) => out.putStrLn "err io:UnexpectedEof"
          | .err (.io (.other c)) => out.putStrLn s!"err io:{c}"
          | _ => out.putStrLn "err other"
      out.putStrLn "END"
      out.flush
      loop h out m
  | [cmd, id, hx] =>
      if cmd == "LOAD" || cmd == "LOADV" || cmd == "LOADO" then
        match Obs.unhex hx with
        | none => do out.putStrLn s!"CASE {id}"; out.putStrLn "bad-hex"; out.putStrLn "END"
        | some bs => emitCase out (cmd == "LOADV") m id bs (cmd == "LOADO")
        out.flush
      else
        out.putStrLn "bad-op"
      loop h out m
  | _ =>
      if line.trimAscii.toString.isEmpty then loop h out m else
      out.putStrLn "bad-op"
      loop h out m

def main : IO Unit := do
  let stdin ← IO.getStdin
  let stdout ← IO.getStdout
  loop stdin stdout Profile.release
