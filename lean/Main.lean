import Ase

open Ase

partial def loop (h : IO.FS.Stream) (out : IO.FS.Stream) (m : Profile) : IO Unit := do
  let line ← h.getLine
  if line.isEmpty then return ()
  let parts := line.trimAscii.toString.splitOn " "
  match parts with
  | ["PROFILE", p] =>
      let m' := if p == "checked" then Profile.checked else Profile.release
      loop h out m'
  | [cmd, id, hx] =>
      if cmd == "LOAD" || cmd == "LOADV" then
        out.putStrLn s!"CASE {id}"
        match Obs.unhex hx with
        | none => out.putStrLn "bad-hex"
        | some bs =>
            let r := parse Zlib.inflate m bs
            for l in Obs.load (cmd == "LOADV") m r do
              out.putStrLn l
        out.putStrLn "END"
        out.flush
      else
        out.putStrLn "bad-op"
      loop h out m
  | _ =>
      if line.trimAscii.toString.isEmpty then loop h out m else
      out.putStrLn "bad-op"
      loop h out m

def main : IO Unit := do
  let stdin ← IO.getStdin
  let stdout ← IO.getStdout
  loop stdin stdout Profile.release
