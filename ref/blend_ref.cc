// Second oracle for the blend spec (DESIGN 4.5): the C++ excerpts the repository keeps in
// ref/dummy.cc are included textually (main renamed, printf silenced); the per-mode functions
// that ref/ does not contain are transcribed from Aseprite's src/doc/blend_funcs.cpp.
// Reads "mode bbbbbbbb ssssssss opacity" lines (pixels as r,g,b,a hex bytes) and prints the
// composited pixel.
#include <cmath>
#include <cstdio>
#include <cstdlib>
#include <cstring>
#include <algorithm>
#define main dummy_main
#define printf(...) ((void)0)
#include REPO_DUMMY
#undef printf
#undef main

#define blend_screen(b, s, t)     ((b) + (s) - MUL_UN8((b), (s), (t)))
#define blend_overlay(b, s, t)    (blend_hard_light(s, b, t))
#define blend_darken(b, s)        (MIN((b), (s)))
#define blend_lighten(b, s)       (MAX((b), (s)))
#define blend_hard_light(b, s, t) ((s) < 128 ?                          \
                                   blend_multiply((b), (s)<<1, (t)):    \
                                   blend_screen((b), ((s)<<1)-255, (t)))
#define blend_difference(b, s)    (ABS((b) - (s)))
#define blend_exclusion(b, s, t)  ((t) = MUL_UN8((b), (s), (t)), ((b) + (s) - 2*(t)))
#define ABS(x) (((x) >= 0) ? (x) : (-(x)))
#define DIV_UN8(a, b) (((uint16_t) (a) * 0xff + ((b) / 2)) / (b))

static inline uint32_t blend_divide(uint32_t b, uint32_t s) {
  if (b == 0) return 0;
  else if (b >= s) return 255;
  else return DIV_UN8(b, s);
}
static inline uint32_t blend_color_dodge(uint32_t b, uint32_t s) {
  if (b == 0) return 0;
  s = (255 - s);
  if (b >= s) return 255;
  else return DIV_UN8(b, s);
}
static inline uint32_t blend_color_burn(uint32_t b, uint32_t s) {
  if (b == 255) return 255;
  b = (255 - b);
  if (b >= s) return 0;
  else return 255 - DIV_UN8(b, s);
}
static inline uint32_t blend_soft_light(uint32_t _b, uint32_t _s) {
  double b = _b / 255.0;
  double s = _s / 255.0;
  double r, d;
  if (b <= 0.25) d = ((16*b-12)*b+4)*b;
  else d = std::sqrt(b);
  if (s <= 0.5) r = b - (1.0 - 2.0*s) * b * (1.0 - b);
  else r = b + (2.0*s - 1.0) * (d - b);
  return (uint32_t)(r * 255 + 0.5);
}

#define CHANNEL_MODE_T(name)                                                  \
color_t rgba_blender_##name(color_t backdrop, color_t src, int opacity) {     \
  int t;                                                                      \
  int r = blend_##name(rgba_getr(backdrop), rgba_getr(src), t);               \
  int g = blend_##name(rgba_getg(backdrop), rgba_getg(src), t);               \
  int b = blend_##name(rgba_getb(backdrop), rgba_getb(src), t);               \
  src = rgba(r, g, b, 0) | (src & rgba_a_mask);                               \
  return rgba_blender_normal(backdrop, src, opacity);                         \
}
#define CHANNEL_MODE(name)                                                    \
color_t rgba_blender_##name(color_t backdrop, color_t src, int opacity) {     \
  int r = blend_##name(rgba_getr(backdrop), rgba_getr(src));                  \
  int g = blend_##name(rgba_getg(backdrop), rgba_getg(src));                  \
  int b = blend_##name(rgba_getb(backdrop), rgba_getb(src));                  \
  src = rgba(r, g, b, 0) | (src & rgba_a_mask);                               \
  return rgba_blender_normal(backdrop, src, opacity);                         \
}
CHANNEL_MODE_T(screen)
CHANNEL_MODE_T(overlay)
CHANNEL_MODE(darken)
CHANNEL_MODE(lighten)
CHANNEL_MODE(color_dodge)
CHANNEL_MODE(color_burn)
CHANNEL_MODE_T(hard_light)
CHANNEL_MODE(soft_light)
CHANNEL_MODE(difference)
CHANNEL_MODE_T(exclusion)
CHANNEL_MODE(divide)

color_t rgba_blender_addition(color_t backdrop, color_t src, int opacity) {
  int r = rgba_getr(backdrop) + rgba_getr(src);
  int g = rgba_getg(backdrop) + rgba_getg(src);
  int b = rgba_getb(backdrop) + rgba_getb(src);
  src = rgba(MIN(r, 255), MIN(g, 255), MIN(b, 255), 0) | (src & rgba_a_mask);
  return rgba_blender_normal(backdrop, src, opacity);
}
color_t rgba_blender_subtract(color_t backdrop, color_t src, int opacity) {
  int r = rgba_getr(backdrop) - rgba_getr(src);
  int g = rgba_getg(backdrop) - rgba_getg(src);
  int b = rgba_getb(backdrop) - rgba_getb(src);
  src = rgba(MAX(r, 0), MAX(g, 0), MAX(b, 0), 0) | (src & rgba_a_mask);
  return rgba_blender_normal(backdrop, src, opacity);
}

// HSL modes as in Aseprite (set_sat is the MIN/MID/MAX reference-macro version of dummy.cc)
color_t rgba_blender_hsl_hue_ase(color_t backdrop, color_t src, int opacity) {
  double r = rgba_getr(backdrop)/255.0;
  double g = rgba_getg(backdrop)/255.0;
  double b = rgba_getb(backdrop)/255.0;
  double s = sat(r, g, b);
  double l = lum(r, g, b);
  r = rgba_getr(src)/255.0;
  g = rgba_getg(src)/255.0;
  b = rgba_getb(src)/255.0;
  set_sat(r, g, b, s);
  set_lum(r, g, b, l);
  src = rgba(int(255.0*r), int(255.0*g), int(255.0*b), 0) | (src & rgba_a_mask);
  return rgba_blender_normal(backdrop, src, opacity);
}
color_t rgba_blender_hsl_saturation_ase(color_t backdrop, color_t src, int opacity) {
  double r = rgba_getr(src)/255.0;
  double g = rgba_getg(src)/255.0;
  double b = rgba_getb(src)/255.0;
  double s = sat(r, g, b);
  r = rgba_getr(backdrop)/255.0;
  g = rgba_getg(backdrop)/255.0;
  b = rgba_getb(backdrop)/255.0;
  double l = lum(r, g, b);
  set_sat(r, g, b, s);
  set_lum(r, g, b, l);
  src = rgba(int(255.0*r), int(255.0*g), int(255.0*b), 0) | (src & rgba_a_mask);
  return rgba_blender_normal(backdrop, src, opacity);
}
color_t rgba_blender_hsl_color_ase(color_t backdrop, color_t src, int opacity) {
  double r = rgba_getr(backdrop)/255.0;
  double g = rgba_getg(backdrop)/255.0;
  double b = rgba_getb(backdrop)/255.0;
  double l = lum(r, g, b);
  r = rgba_getr(src)/255.0;
  g = rgba_getg(src)/255.0;
  b = rgba_getb(src)/255.0;
  set_lum(r, g, b, l);
  src = rgba(int(255.0*r), int(255.0*g), int(255.0*b), 0) | (src & rgba_a_mask);
  return rgba_blender_normal(backdrop, src, opacity);
}
color_t rgba_blender_hsl_luminosity_ase(color_t backdrop, color_t src, int opacity) {
  double r = rgba_getr(src)/255.0;
  double g = rgba_getg(src)/255.0;
  double b = rgba_getb(src)/255.0;
  double l = lum(r, g, b);
  r = rgba_getr(backdrop)/255.0;
  g = rgba_getg(backdrop)/255.0;
  b = rgba_getb(backdrop)/255.0;
  set_lum(r, g, b, l);
  src = rgba(int(255.0*r), int(255.0*g), int(255.0*b), 0) | (src & rgba_a_mask);
  return rgba_blender_normal(backdrop, src, opacity);
}

RGBA_BLENDER_N(screen)
RGBA_BLENDER_N(overlay)
RGBA_BLENDER_N(darken)
RGBA_BLENDER_N(lighten)
RGBA_BLENDER_N(color_dodge)
RGBA_BLENDER_N(color_burn)
RGBA_BLENDER_N(hard_light)
RGBA_BLENDER_N(soft_light)
RGBA_BLENDER_N(difference)
RGBA_BLENDER_N(exclusion)
RGBA_BLENDER_N(hsl_hue_ase)
RGBA_BLENDER_N(hsl_saturation_ase)
RGBA_BLENDER_N(hsl_color_ase)
RGBA_BLENDER_N(hsl_luminosity_ase)
RGBA_BLENDER_N(addition)
RGBA_BLENDER_N(subtract)
RGBA_BLENDER_N(divide)

typedef color_t (*blend_fn)(color_t, color_t, int);
static blend_fn table[19] = {
  rgba_blender_normal, rgba_blender_multiply_n, rgba_blender_screen_n, rgba_blender_overlay_n,
  rgba_blender_darken_n, rgba_blender_lighten_n, rgba_blender_color_dodge_n,
  rgba_blender_color_burn_n, rgba_blender_hard_light_n, rgba_blender_soft_light_n,
  rgba_blender_difference_n, rgba_blender_exclusion_n, rgba_blender_hsl_hue_ase_n,
  rgba_blender_hsl_saturation_ase_n, rgba_blender_hsl_color_ase_n,
  rgba_blender_hsl_luminosity_ase_n, rgba_blender_addition_n, rgba_blender_subtract_n,
  rgba_blender_divide_n };

static color_t parse_px(const char* s) {
  unsigned r, g, b, a;
  sscanf(s, "%2x%2x%2x%2x", &r, &g, &b, &a);
  return rgba(r, g, b, a);
}

int main() {
  char line[256];
  while (fgets(line, sizeof line, stdin)) {
    int mode, opacity;
    char b[16], s[16];
    if (sscanf(line, "%d %8s %8s %d", &mode, b, s, &opacity) != 4 || mode < 0 || mode > 18) {
      puts("bad");
      continue;
    }
    color_t r = table[mode](parse_px(b), parse_px(s), opacity);
    std::printf("%02x%02x%02x%02x\n", rgba_getr(r), rgba_getg(r), rgba_getb(r), rgba_geta(r));
  }
  return 0;
}
